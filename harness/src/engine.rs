//! Runner: seeding, workers, shrinking (via proptest), counters, evidence, replay, known findings.

use crate::tape::Tape;
use proptest::collection::vec;
use proptest::prelude::any;
use proptest::test_runner::{Config, RngAlgorithm, RngSeed, TestCaseError, TestError, TestRunner};
use serde_json::{json, Value as J};
use std::borrow::Cow;
use std::cell::RefCell;
use std::collections::{BTreeMap, HashMap, HashSet};
use std::hash::{Hash, Hasher};
use std::panic::{catch_unwind, AssertUnwindSafe};
use std::sync::atomic::{AtomicBool, AtomicU64, Ordering};
use std::sync::{Arc, Mutex};
use std::time::Instant;

pub const VERIF_DIR: &str = "/verif";

/// where replays and evidence go (overridable for sensitivity self-tests run from scratch copies)
pub fn out_dir() -> String {
    std::env::var("VERIF_OUT").unwrap_or_else(|_| VERIF_DIR.to_string())
}

#[derive(Clone, Copy, PartialEq, Eq, Debug)]
pub enum Tier {
    Quick,
    Thorough,
}

impl Tier {
    pub fn name(self) -> &'static str {
        match self {
            Tier::Quick => "quick",
            Tier::Thorough => "thorough",
        }
    }
}

#[derive(Debug, Default)]
pub struct Known {
    /// (property, signature) -> description
    pub known: BTreeMap<(String, String), String>,
}

impl Known {
    pub fn load() -> Known {
        let mut k = Known::default();
        let path = format!("{VERIF_DIR}/known_findings.txt");
        if let Ok(s) = std::fs::read_to_string(path) {
            for line in s.lines() {
                let line = line.trim();
                if let Some(rest) = line.strip_prefix("known:") {
                    let rest = rest.trim();
                    let mut prop = None;
                    let mut sig = None;
                    let mut desc = Vec::new();
                    for tok in rest.split_whitespace() {
                        if let Some(p) = tok.strip_prefix("property=") {
                            if prop.is_none() {
                                prop = Some(p.to_string());
                                continue;
                            }
                        }
                        if let Some(s) = tok.strip_prefix("sig=") {
                            if sig.is_none() {
                                sig = Some(s.to_string());
                                continue;
                            }
                        }
                        desc.push(tok);
                    }
                    if let (Some(p), Some(s)) = (prop, sig) {
                        k.known.insert((p, s), desc.join(" "));
                    }
                }
            }
        }
        k
    }
    pub fn is_known(&self, prop: &str, sig: &str) -> bool {
        self.known.contains_key(&(prop.to_string(), sig.to_string()))
    }
}

pub struct Params {
    pub prop: &'static str,
    pub tier: Tier,
    pub seed: u64,
    pub known: Known,
    /// strict: known findings are not suppressed (replay mode)
    pub strict: bool,
}

#[derive(Clone, Debug)]
pub struct Failure {
    pub sig: String,
    pub msg: String,
}

/// Per-case recorder handed to every property function.
pub struct Rec<'a> {
    pub params: &'a Params,
    pub want_render: bool,
    pub labels: Vec<Cow<'static, str>>,
    pub nontrivial: bool,
    pub key: u64,
    pub rendered: String,
    pub failure: Option<Failure>,
    pub known_hits: Vec<String>,
    pub discard: Option<Cow<'static, str>>,
}

impl<'a> Rec<'a> {
    pub fn new(params: &'a Params, want_render: bool) -> Self {
        Rec {
            params,
            want_render,
            labels: Vec::new(),
            nontrivial: false,
            key: 0,
            rendered: String::new(),
            failure: None,
            known_hits: Vec::new(),
            discard: None,
        }
    }
    pub fn thorough(&self) -> bool {
        self.params.tier == Tier::Thorough
    }
    /// size parameter by tier
    pub fn size(&self, quick: usize, thorough: usize) -> usize {
        if self.thorough() {
            thorough
        } else {
            quick
        }
    }
    pub fn label(&mut self, s: impl Into<Cow<'static, str>>) {
        self.labels.push(s.into());
    }
    pub fn label_if(&mut self, c: bool, s: &'static str) {
        if c {
            self.labels.push(Cow::Borrowed(s));
        }
    }
    pub fn discard(&mut self, why: impl Into<Cow<'static, str>>) {
        if self.discard.is_none() {
            self.discard = Some(why.into());
        }
    }
    /// Record a property violation with a root-cause signature. Returns true if
    /// it is a *new* (not known) failure.
    pub fn fail(&mut self, sig: impl Into<String>, msg: impl Into<String>) -> bool {
        let sig = sig.into();
        if !self.params.strict && self.params.known.is_known(self.params.prop, &sig) {
            if !self.known_hits.contains(&sig) {
                self.known_hits.push(sig);
            }
            return false;
        }
        if self.failure.is_none() {
            self.failure = Some(Failure { sig, msg: msg.into() });
        }
        true
    }
    pub fn failed(&self) -> bool {
        self.failure.is_some()
    }
    pub fn set_key<H: Hash + ?Sized>(&mut self, h: &H) {
        let mut s = std::collections::hash_map::DefaultHasher::new();
        h.hash(&mut s);
        self.key = s.finish();
    }
    pub fn render(&mut self, f: impl FnOnce() -> String) {
        if self.want_render {
            let s = f();
            if !self.rendered.is_empty() {
                self.rendered.push('\n');
            }
            self.rendered.push_str(&s);
        }
    }
}

pub type CaseFn = fn(&mut Tape, &mut Rec<'_>);

pub struct SubCheck {
    pub name: &'static str,
    /// (quick, thorough) case counts
    pub cases: (u32, u32),
    /// maximal tape length (words)
    pub tape_len: usize,
    pub run: CaseFn,
    /// labels that must be seen at least this often in the quick tier (vacuity guard)
    pub min_labels: &'static [(&'static str, u64)],
}

pub struct Property {
    pub id: &'static str,
    pub rule: &'static str,
    pub assumptions: &'static [&'static str],
    pub subs: Vec<SubCheck>,
}

// ---------------------------------------------------------------------------------------------
// panic capture

thread_local! {
    static LAST_PANIC: RefCell<Option<(String, String)>> = const { RefCell::new(None) };
    static QUIET: RefCell<bool> = const { RefCell::new(false) };
}

pub fn install_panic_hook() {
    let default = std::panic::take_hook();
    std::panic::set_hook(Box::new(move |info| {
        let loc = info
            .location()
            .map(|l| format!("{}:{}", l.file(), l.line()))
            .unwrap_or_else(|| "?".into());
        let msg = if let Some(s) = info.payload().downcast_ref::<&str>() {
            s.to_string()
        } else if let Some(s) = info.payload().downcast_ref::<String>() {
            s.clone()
        } else {
            "<non-string panic>".into()
        };
        let quiet = QUIET.with(|q| *q.borrow());
        LAST_PANIC.with(|p| *p.borrow_mut() = Some((loc, msg)));
        if !quiet {
            default(info);
        }
    }));
}

/// Run `f`, converting a panic into `Err((location, message))`.
pub fn guarded<T>(f: impl FnOnce() -> T) -> Result<T, (String, String)> {
    let verbose = std::env::var_os("VERIF_PANIC_VERBOSE").is_some();
    let prev = QUIET.with(|q| std::mem::replace(&mut *q.borrow_mut(), !verbose));
    LAST_PANIC.with(|p| *p.borrow_mut() = None);
    let r = catch_unwind(AssertUnwindSafe(f));
    QUIET.with(|q| *q.borrow_mut() = prev);
    match r {
        Ok(v) => Ok(v),
        Err(_) => Err(LAST_PANIC
            .with(|p| p.borrow_mut().take())
            .unwrap_or_else(|| ("?".into(), "?".into()))),
    }
}

fn short_loc(loc: &str) -> String {
    // strip everything up to the crate directory so signatures are stable
    let l = loc.rsplit("/repo/").next().unwrap_or(loc);
    let l = l.rsplit("/verif/").next().unwrap_or(l);
    l.to_string()
}

pub fn run_case(sub: &SubCheck, words: &[u32], params: &Params, want_render: bool) -> RecOwned {
    let mut tape = Tape::new(words.to_vec());
    let mut rec = Rec::new(params, want_render);
    let r = guarded(|| (sub.run)(&mut tape, &mut rec));
    if let Err((loc, msg)) = r {
        rec.fail(format!("panic:{}", short_loc(&loc)), format!("panic at {loc}: {msg}"));
    }
    RecOwned {
        labels: rec.labels,
        nontrivial: rec.nontrivial,
        key: rec.key,
        rendered: rec.rendered,
        failure: rec.failure,
        known_hits: rec.known_hits,
        discard: rec.discard,
        used: tape.used(),
    }
}

pub struct RecOwned {
    pub labels: Vec<Cow<'static, str>>,
    pub nontrivial: bool,
    pub key: u64,
    pub rendered: String,
    pub failure: Option<Failure>,
    pub known_hits: Vec<String>,
    pub discard: Option<Cow<'static, str>>,
    pub used: usize,
}

// ---------------------------------------------------------------------------------------------

#[derive(Default)]
struct Stats {
    evals: u64,
    discards: HashMap<Cow<'static, str>, u64>,
    labels: HashMap<Cow<'static, str>, u64>,
    keys: HashSet<u64>,
    known: BTreeMap<String, u64>,
    first_sample: Option<Vec<u32>>,
    big_sample: Option<(usize, Vec<u32>)>,
    mid_sample: Option<Vec<u32>>,
    failure: Option<(Vec<u32>, Failure)>,
}

fn splitmix(mut x: u64) -> u64 {
    x = x.wrapping_add(0x9E3779B97F4A7C15);
    let mut z = x;
    z = (z ^ (z >> 30)).wrapping_mul(0xBF58476D1CE4E5B9);
    z = (z ^ (z >> 27)).wrapping_mul(0x94D049BB133111EB);
    z ^ (z >> 31)
}

fn str_hash(s: &str) -> u64 {
    let mut h = 0xcbf29ce484222325u64;
    for b in s.bytes() {
        h ^= b as u64;
        h = h.wrapping_mul(0x100000001b3);
    }
    h
}

pub struct SubResult {
    pub name: &'static str,
    pub evals: u64,
    pub discards: BTreeMap<String, u64>,
    pub labels: BTreeMap<String, u64>,
    pub keys: HashSet<u64>,
    pub known: BTreeMap<String, u64>,
    pub samples: Vec<Vec<u32>>,
    pub failure: Option<(Vec<u32>, Failure)>,
}

struct Watch {
    start_ms: AtomicU64,
    words: Mutex<Vec<u32>>,
}

pub fn workers() -> usize {
    std::env::var("VERIF_WORKERS")
        .ok()
        .and_then(|s| s.parse().ok())
        .unwrap_or_else(|| std::thread::available_parallelism().map(|n| n.get()).unwrap_or(4).min(16))
}

/// Tape-aware shrinking: truncate, zero blocks (delta debugging), then reduce single words.
/// A candidate is kept only if it fails with the same signature.
pub fn shrink_tape(sub: &SubCheck, params: &Params, words: Vec<u32>, sig: &str, budget: usize) -> Vec<u32> {
    let mut left = budget;
    let fails = |w: &[u32], left: &mut usize| -> bool {
        if *left == 0 {
            return false;
        }
        *left -= 1;
        matches!(run_case(sub, w, params, false).failure, Some(f) if f.sig == sig)
    };
    let mut cur = words;
    // 1. cut to what was consumed, then try shorter prefixes
    let used = run_case(sub, &cur, params, false).used;
    if used < cur.len() {
        cur.truncate(used);
    }
    let mut lo = 0usize; // shortest length known NOT to fail is unknown; binary search for a failing shorter prefix
    let mut hi = cur.len();
    while lo < hi && left > 0 {
        let mid = (lo + hi) / 2;
        if fails(&cur[..mid], &mut left) {
            hi = mid;
        } else {
            lo = mid + 1;
        }
    }
    if hi < cur.len() && fails(&cur[..hi], &mut left) {
        cur.truncate(hi);
    }
    // 2. zero blocks
    let mut chunk = (cur.len() / 2).max(1);
    loop {
        let mut i = 0;
        while i < cur.len() && left > 0 {
            let end = (i + chunk).min(cur.len());
            if cur[i..end].iter().any(|w| *w != 0) {
                let saved: Vec<u32> = cur[i..end].to_vec();
                cur[i..end].iter_mut().for_each(|w| *w = 0);
                if !fails(&cur, &mut left) {
                    cur[i..end].copy_from_slice(&saved);
                }
            }
            i = end;
        }
        if chunk == 1 || left == 0 {
            break;
        }
        chunk = (chunk / 2).max(1);
    }
    // 3. lower single words
    for i in 0..cur.len() {
        let mut tries = 0;
        while cur[i] != 0 && left > 0 && tries < 6 {
            let saved = cur[i];
            cur[i] = saved / 2;
            if !fails(&cur, &mut left) {
                cur[i] = saved;
                break;
            }
            tries += 1;
        }
    }
    while cur.last() == Some(&0) {
        cur.pop();
    }
    cur
}

fn run_sub(prop: &Property, sub: &SubCheck, params: &Arc<Params>, cases_override: Option<u32>) -> SubResult {
    let total = cases_override.unwrap_or(match params.tier {
        Tier::Quick => sub.cases.0,
        Tier::Thorough => sub.cases.1,
    });
    let w = workers().min(total.max(1) as usize).max(1);
    let stop = Arc::new(AtomicBool::new(false));
    let t0 = Instant::now();
    let watches: Vec<Arc<Watch>> = (0..w)
        .map(|_| Arc::new(Watch { start_ms: AtomicU64::new(0), words: Mutex::new(Vec::new()) }))
        .collect();
    let done = Arc::new(AtomicBool::new(false));
    let hang_limit_ms: u64 = std::env::var("VERIF_HANG_MS").ok().and_then(|s| s.parse().ok()).unwrap_or(120_000);

    let results: Vec<Stats> = std::thread::scope(|scope| {
        // watchdog
        {
            let watches = watches.clone();
            let done = done.clone();
            let pid = prop.id;
            let sname = sub.name;
            scope.spawn(move || {
                while !done.load(Ordering::Relaxed) {
                    std::thread::sleep(std::time::Duration::from_millis(500));
                    let now = t0.elapsed().as_millis() as u64 + 1;
                    for wt in &watches {
                        let s = wt.start_ms.load(Ordering::Relaxed);
                        if s != 0 && now > s && now - s > hang_limit_ms {
                            // a stall of the whole process (a paused or snapshotted sandbox) makes every running case look
                            // old: give the case ten more seconds of real progress before calling it a hang
                            std::thread::sleep(std::time::Duration::from_secs(10));
                            if wt.start_ms.load(Ordering::Relaxed) != s {
                                continue;
                            }
                            let words = wt.words.lock().map(|g| g.clone()).unwrap_or_default();
                            let path = format!("{}/replays/{pid}-{sname}-hang.json", out_dir());
                            let _ = std::fs::create_dir_all(format!("{}/replays", out_dir()));
                            let _ = std::fs::write(
                                &path,
                                serde_json::to_string(&json!({"property": pid, "sub": sname, "tape": words, "signature": "hang"}))
                                    .unwrap_or_default(),
                            );
                            println!("HANG property={pid} sub={sname} replay={path} (inconclusive)");
                            std::process::exit(2);
                        }
                    }
                }
            });
        }
        let handles: Vec<_> = (0..w)
            .map(|wi| {
                let params = params.clone();
                let stop = stop.clone();
                let watch = watches[wi].clone();
                let n = total / w as u32 + if (wi as u32) < total % w as u32 { 1 } else { 0 };
                let seed = splitmix(params.seed ^ str_hash(prop.id) ^ str_hash(sub.name).rotate_left(17) ^ ((wi as u64) << 48));
                std::thread::Builder::new()
                    .stack_size(64 << 20)
                    .spawn_scoped(scope, move || {
                        let stats = RefCell::new(Stats::default());
                        let first_sig: RefCell<Option<String>> = RefCell::new(None);
                        if n == 0 {
                            return stats.into_inner();
                        }
                        let mut cfg = Config::default();
                        cfg.cases = n;
                        cfg.failure_persistence = None;
                        cfg.rng_seed = RngSeed::Fixed(seed);
                        cfg.rng_algorithm = RngAlgorithm::ChaCha;
                        // proptest generates; shrinking is done by the tape-aware pass below (zeroing keeps
                        // later choices aligned, deleting words would re-interpret the rest of the tape)
                        cfg.max_shrink_iters = 0;
                        cfg.max_shrink_time = 0;
                        cfg.verbose = 0;
                        cfg.source_file = None;
                        cfg.max_global_rejects = u32::MAX;
                        let mut runner = TestRunner::new(cfg);
                        // mostly full-length tapes (an exhausted tape yields the simplest choices, so short
                        // tapes only produce small cases); 1 in 8 tapes has a uniformly random length
                        let strat = proptest::prop_oneof![
                            1 => vec(any::<u32>(), 0..=sub.tape_len),
                            7 => vec(any::<u32>(), sub.tape_len..=sub.tape_len),
                        ];
                        let res = runner.run(&strat, |words| {
                            let shrinking = first_sig.borrow().is_some();
                            if !shrinking && stop.load(Ordering::Relaxed) {
                                return Ok(());
                            }
                            if let Ok(mut g) = watch.words.lock() {
                                g.clear();
                                g.extend_from_slice(&words);
                            }
                            watch.start_ms.store(t0.elapsed().as_millis() as u64 + 1, Ordering::Relaxed);
                            let r = run_case(sub, &words, &params, false);
                            watch.start_ms.store(0, Ordering::Relaxed);
                            if shrinking {
                                return match &r.failure {
                                    Some(f) if Some(&f.sig) == first_sig.borrow().as_ref() => {
                                        Err(TestCaseError::fail(f.sig.clone()))
                                    }
                                    _ => Ok(()),
                                };
                            }
                            let mut st = stats.borrow_mut();
                            if let Some(d) = r.discard {
                                *st.discards.entry(d).or_insert(0) += 1;
                                if r.failure.is_none() {
                                    return Ok(());
                                }
                            }
                            st.evals += 1;
                            for l in r.labels {
                                *st.labels.entry(l).or_insert(0) += 1;
                            }
                            for k in r.known_hits {
                                *st.known.entry(k).or_insert(0) += 1;
                            }
                            if r.nontrivial {
                                let newkey = st.keys.insert(r.key);
                                if newkey {
                                    if st.first_sample.is_none() {
                                        st.first_sample = Some(words.clone());
                                    } else if st.mid_sample.is_none() && st.keys.len() >= 50 {
                                        st.mid_sample = Some(words.clone());
                                    }
                                    if st.big_sample.as_ref().map(|(u, _)| r.used > *u).unwrap_or(true) {
                                        st.big_sample = Some((r.used, words.clone()));
                                    }
                                }
                            }
                            if let Some(f) = r.failure {
                                *first_sig.borrow_mut() = Some(f.sig.clone());
                                stop.store(true, Ordering::Relaxed);
                                return Err(TestCaseError::fail(f.sig));
                            }
                            Ok(())
                        });
                        let mut st = stats.into_inner();
                        match res {
                            Ok(()) => {}
                            Err(TestError::Fail(_, words)) => {
                                let sig = first_sig.borrow().clone().unwrap_or_default();
                                let budget = if params.tier == Tier::Quick { 3000 } else { 10000 };
                                let words = shrink_tape(sub, &params, words, &sig, budget);
                                let r = run_case(sub, &words, &params, false);
                                let f = r.failure.unwrap_or(Failure {
                                    sig,
                                    msg: "failure did not reproduce on the shrunk tape (flaky oracle?)".into(),
                                });
                                st.failure = Some((words, f));
                            }
                            Err(TestError::Abort(why)) => {
                                st.failure = Some((
                                    vec![],
                                    Failure { sig: "engine-abort".into(), msg: format!("proptest aborted: {why}") },
                                ));
                            }
                        }
                        st
                    })
                    .expect("spawn worker")
            })
            .collect();
        let out: Vec<Stats> = handles.into_iter().map(|h| h.join().expect("worker panicked")).collect();
        done.store(true, Ordering::Relaxed);
        out
    });

    let mut r = SubResult {
        name: sub.name,
        evals: 0,
        discards: BTreeMap::new(),
        labels: BTreeMap::new(),
        keys: HashSet::new(),
        known: BTreeMap::new(),
        samples: Vec::new(),
        failure: None,
    };
    let mut big: Option<(usize, Vec<u32>)> = None;
    let mut mid = None;
    for st in results {
        r.evals += st.evals;
        for (k, v) in st.discards {
            *r.discards.entry(k.into_owned()).or_insert(0) += v;
        }
        for (k, v) in st.labels {
            *r.labels.entry(k.into_owned()).or_insert(0) += v;
        }
        for (k, v) in st.known {
            *r.known.entry(k).or_insert(0) += v;
        }
        r.keys.extend(st.keys);
        if r.samples.is_empty() {
            if let Some(s) = st.first_sample {
                r.samples.push(s);
            }
        }
        if mid.is_none() {
            mid = st.mid_sample;
        }
        if let Some((u, wds)) = st.big_sample {
            if big.as_ref().map(|(bu, _)| u > *bu).unwrap_or(true) {
                big = Some((u, wds));
            }
        }
        if r.failure.is_none() {
            r.failure = st.failure;
        }
    }
    if let Some(m) = mid {
        r.samples.push(m);
    }
    if let Some((_, b)) = big {
        r.samples.push(b);
    }
    r
}

fn truncate(s: &str, n: usize) -> String {
    if s.len() <= n {
        s.to_string()
    } else {
        let mut end = n;
        while !s.is_char_boundary(end) {
            end -= 1;
        }
        format!("{}… [{} bytes truncated]", &s[..end], s.len() - end)
    }
}

pub fn write_replay(prop: &str, sub: &SubCheck, params: &Params, words: &[u32], f: &Failure) -> String {
    let strict = Params { prop: params.prop, tier: params.tier, seed: params.seed, known: Known::default(), strict: true };
    let rendered = run_case(sub, words, &strict, true).rendered;
    let h = {
        let mut s = std::collections::hash_map::DefaultHasher::new();
        words.hash(&mut s);
        f.sig.hash(&mut s);
        s.finish()
    };
    let dir = format!("{}/replays", out_dir());
    let _ = std::fs::create_dir_all(&dir);
    let path = format!("{dir}/{prop}-{}-{:012x}.json", sub.name, h & 0xffff_ffff_ffff);
    let doc = json!({
        "property": prop,
        "sub": sub.name,
        "tier": params.tier.name(),
        "seed": params.seed,
        "signature": f.sig,
        "message": f.msg,
        "tape": words,
        "case": rendered,
    });
    let _ = std::fs::write(&path, serde_json::to_string_pretty(&doc).unwrap_or_default());
    path
}

pub struct RunOpts {
    pub tier: Tier,
    pub seed: u64,
    pub only_sub: Option<String>,
    pub cases: Option<u32>,
    pub write_evidence: bool,
}

/// Extra evidence produced by non-tape engines (libFuzzer campaigns, subprocess sweeps).
#[derive(Default)]
pub struct Extra {
    pub evals: u64,
    pub json: BTreeMap<String, J>,
    pub violation: Option<String>, // replay path
    pub inconclusive: Option<String>,
}

/// Runs all sub-checks; returns process exit code.
pub fn run_property(prop: &Property, opts: &RunOpts, extra: Option<Extra>) -> i32 {
    let t0 = Instant::now();
    let params = Arc::new(Params { prop: prop.id, tier: opts.tier, seed: opts.seed, known: Known::load(), strict: false });
    let mut evals = 0u64;
    let mut keys: HashSet<(usize, u64)> = HashSet::new();
    let mut classes: BTreeMap<String, u64> = BTreeMap::new();
    let mut sub_json = Vec::new();
    let mut samples: Vec<J> = Vec::new();
    let mut known_total: BTreeMap<String, u64> = BTreeMap::new();
    let mut violations = 0;
    let mut degenerate: Vec<String> = Vec::new();
    let mut exit = 0;

    for (si, sub) in prop.subs.iter().enumerate() {
        if let Some(o) = &opts.only_sub {
            if o != sub.name {
                continue;
            }
        }
        let ts = Instant::now();
        let r = run_sub(prop, sub, &params, opts.cases);
        evals += r.evals;
        for k in &r.keys {
            keys.insert((si, *k));
        }
        for (k, v) in &r.labels {
            *classes.entry(format!("{}:{}", sub.name, k)).or_insert(0) += v;
        }
        for (k, v) in &r.known {
            *known_total.entry(k.clone()).or_insert(0) += v;
        }
        let mut sub_viol = 0;
        if let Some((words, f)) = &r.failure {
            sub_viol = 1;
            violations += 1;
            let path = write_replay(prop.id, sub, &params, words, f);
            println!("VIOLATION property={} replay={}", prop.id, path);
            println!("  sub-check: {}  signature: {}", sub.name, f.sig);
            println!("  {}", truncate(&f.msg, 2000));
            exit = 1;
        } else if opts.cases.is_none() {
            // vacuity guards only on full runs without a failure
            let scale = match params.tier {
                Tier::Quick => 1,
                Tier::Thorough => (sub.cases.1 / sub.cases.0.max(1)).max(1) as u64,
            };
            for (lab, min) in sub.min_labels {
                let got = r.labels.get(*lab).copied().unwrap_or(0);
                if got < *min * scale {
                    degenerate.push(format!("{}:{} seen {} < {}", sub.name, lab, got, min * scale));
                }
            }
        }
        for (i, s) in r.samples.iter().enumerate() {
            if samples.len() < 8 && i < 2 {
                let rr = run_case(sub, s, &params, true);
                samples.push(json!({"sub": sub.name, "tape_words_used": rr.used, "case": truncate(&rr.rendered, 3000)}));
            }
        }
        sub_json.push(json!({
            "name": sub.name,
            "evaluations": r.evals,
            "distinct_nontrivial": r.keys.len(),
            "discarded": r.discards,
            "violations": sub_viol,
            "wall_s": ts.elapsed().as_secs_f64(),
        }));
        eprintln!(
            "[{}] {} evals={} nontrivial={} discards={:?} {:.1}s",
            prop.id,
            sub.name,
            r.evals,
            r.keys.len(),
            r.discards,
            ts.elapsed().as_secs_f64()
        );
        if std::env::var("VERIF_LABELS").is_ok() {
            for (k, v) in &r.labels {
                eprintln!("    {k}: {v}");
            }
        }
    }

    let mut extra_json = BTreeMap::new();
    if let Some(e) = extra {
        evals += e.evals;
        extra_json = e.json;
        if let Some(p) = e.violation {
            violations += 1;
            println!("VIOLATION property={} replay={}", prop.id, p);
            exit = 1;
        }
        if let Some(why) = e.inconclusive {
            eprintln!("[{}] inconclusive: {}", prop.id, why);
            if exit == 0 {
                exit = 2;
            }
        }
    }

    for ((p, sig), desc) in &params.known.known {
        if p == prop.id {
            // A listed finding is reported on every run (whether or not this run re-confirmed it).
            let n = known_total.get(sig).copied().unwrap_or(0);
            println!("KNOWN-FINDING: property={} sig={} {} (re-confirmed on {} cases this run)", prop.id, sig, desc, n);
        }
    }

    if exit == 0 && !degenerate.is_empty() {
        println!("DEGENERATE-GENERATOR property={} {}", prop.id, degenerate.join("; "));
        exit = 2;
    }

    if opts.write_evidence {
        let mut cov = serde_json::Map::new();
        cov.insert("evaluations".into(), json!(evals));
        cov.insert("distinct_nontrivial".into(), json!(keys.len()));
        cov.insert("rule".into(), json!(prop.rule));
        cov.insert("samples".into(), J::Array(samples));
        cov.insert("classes".into(), json!(classes));
        cov.insert("sub_checks".into(), J::Array(sub_json));
        cov.insert("excluded_known".into(), json!(known_total));
        cov.insert("workers".into(), json!(workers()));
        for (k, v) in extra_json {
            cov.insert(k, v);
        }
        let ev = json!({
            "property_id": prop.id,
            "tier": opts.tier.name(),
            "seed": opts.seed,
            "level": "exploration",
            "coverage": J::Object(cov),
            "assumptions": prop.assumptions,
            "wall_s": t0.elapsed().as_secs_f64(),
            "violations": violations,
        });
        let dir = format!("{}/evidence", out_dir());
        let _ = std::fs::create_dir_all(&dir);
        let path = format!("{dir}/{}.json", prop.id);
        if let Err(e) = std::fs::write(&path, serde_json::to_string_pretty(&ev).unwrap_or_default()) {
            eprintln!("cannot write evidence {path}: {e}");
            if exit == 0 {
                exit = 2;
            }
        }
    }
    eprintln!("[{}] done: evals={} nontrivial={} violations={} exit={} {:.1}s", prop.id, evals, keys.len(), violations, exit, t0.elapsed().as_secs_f64());
    exit
}

/// Replay a saved tape through the same oracle (no proptest involved). Strict: known findings are not suppressed.
pub fn replay(prop: &Property, path: &str) -> i32 {
    let s = match std::fs::read_to_string(path) {
        Ok(s) => s,
        Err(e) => {
            eprintln!("cannot read {path}: {e}");
            return 2;
        }
    };
    let doc: J = match serde_json::from_str(&s) {
        Ok(d) => d,
        Err(e) => {
            eprintln!("bad replay file: {e}");
            return 2;
        }
    };
    let subname = doc["sub"].as_str().unwrap_or("");
    let tier = if doc["tier"].as_str() == Some("thorough") { Tier::Thorough } else { Tier::Quick };
    let words: Vec<u32> = doc["tape"].as_array().map(|a| a.iter().filter_map(|x| x.as_u64().map(|v| v as u32)).collect()).unwrap_or_default();
    let Some(sub) = prop.subs.iter().find(|s| s.name == subname) else {
        eprintln!("unknown sub-check {subname}");
        return 2;
    };
    let params = Params { prop: prop.id, tier, seed: doc["seed"].as_u64().unwrap_or(0), known: Known::default(), strict: true };
    let r = run_case(sub, &words, &params, true);
    println!("{}", r.rendered);
    match r.failure {
        Some(f) => {
            println!("VIOLATION property={} replay={}", prop.id, path);
            println!("  signature: {}\n  {}", f.sig, f.msg);
            1
        }
        None => {
            println!("replay passed (no violation on this tree)");
            0
        }
    }
}
