pub mod bridge;
pub mod emit;
pub mod engine;
pub mod fuzzing;
pub mod gen;
pub mod props;
pub mod refmodel;
pub mod tape;
