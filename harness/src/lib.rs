pub mod engine;
pub mod props;
pub mod tape;
