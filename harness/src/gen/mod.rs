pub mod u;
