pub mod s;
pub mod u;
