//! World-U / Expr-U: a small untyped universe, requests over it, and grammar-complete untyped expressions.

use crate::refmodel::*;
use crate::tape::Tape;
use std::collections::{BTreeMap, BTreeSet};

pub const TYPES: [&str; 3] = ["A", "B", "NS::C"];

/// uids that may have records (index order = hierarchy order: parents have higher indices)
pub fn uid_pool() -> Vec<Uid> {
    vec![
        Uid::new("A", "a0"),
        Uid::new("A", "a1"),
        Uid::new("B", "b0"),
        Uid::new("A", "q\"uote\\"),
        Uid::new("B", "\u{1F600}"),
        Uid::new("NS::C", ""),
        Uid::new("B", "b1"),
        Uid::new("NS::C", "c0"),
        Uid::new("A", "a2"),
    ]
}

pub fn ghost() -> Uid {
    Uid::new("A", "ghost")
}

pub fn actions() -> Vec<Uid> {
    vec![Uid::new("Action", "view"), Uid::new("Action", "edit"), Uid::new("Action", "all")]
}

#[derive(Clone, Copy, Debug, PartialEq, Eq, PartialOrd, Ord, Hash)]
pub enum K {
    Bool,
    Long,
    Str,
    Ent,
    Set,
    Rec,
    Dec,
    Ip,
    Dt,
    Dur,
}

pub const KINDS: [K; 10] = [K::Bool, K::Long, K::Str, K::Ent, K::Set, K::Rec, K::Dec, K::Ip, K::Dt, K::Dur];

/// attribute name -> conventional kind
pub const ATTRS: [(&str, K); 17] = [
    ("n", K::Long),
    ("s", K::Str),
    ("flag", K::Bool),
    ("ref", K::Ent),
    ("set", K::Set),
    ("rec", K::Rec),
    ("d", K::Dec),
    ("ip", K::Ip),
    ("dt", K::Dt),
    ("dur", K::Dur),
    ("if", K::Long),
    ("has space", K::Str),
    ("\u{1F600}", K::Bool),
    ("", K::Long),
    // ASCII start followed by non-ASCII word characters: must still be printed quoted
    ("caf\u{e9}", K::Str),
    ("a\u{301}", K::Long),
    ("x1\u{4e2d}", K::Bool),
];

pub const TAG_KEYS: [&str; 4] = ["k", "s", "", "a b"];

pub const STRINGS: [&str; 14] = ["", "a", "abc", "a*c", "\\", "\"", "\0", "e\u{301}", "\u{1F600}", "line\nbreak", "*", "ab*", "k", "s"];

pub const DEC_STRS: [&str; 12] = [
    "0.0", "1.0", "1.0000", "-0.5", "1.23", "922337203685477.5807", "-922337203685477.5808", "922337203685477.5808", "1.23456", "1", ".5", "-1.5",
];
pub const IP_STRS: [&str; 16] = [
    "::ffff:a00:1", "::a00:1/120", "127.0.0.1", "10.0.0.0/8", "10.1.2.3", "0.0.0.0/0", "1.1.1.1/32", "1.1.1.1", "::1", "ff00::/8", "::/0", "0:0:0:0:0:0:0:1", "::ffff:1.2.3.4", "1.2.3.4/033", "224.0.0.1", "256.1.1.1",
];
pub const DT_STRS: [&str; 12] = [
    "1970-01-01", "2024-02-29", "2023-02-29", "1969-12-31T23:59:59Z", "2024-01-01T01:00:00+0100", "2024-01-01", "0000-01-01", "9999-12-31T23:59:59.999Z", "2024-01-01T24:00:00Z", "2024-01-01T00:00:00", "2024-13-01", "2024-01-01T00:00:00.001-2359",
];
pub const DUR_STRS: [&str; 12] = ["0ms", "1d", "-1d", "1h30m", "1d2h3m4s5ms", "9223372036854775807ms", "9223372036854775808ms", "-9223372036854775808ms", "", "-", "1m1h", "86400000ms"];

pub fn gen_uid(t: &mut Tape) -> Uid {
    let pool = uid_pool();
    match t.weighted(&[12, 1, 1]) {
        0 => pool[t.upto(pool.len())].clone(),
        1 => ghost(),
        _ => actions()[t.upto(3)].clone(),
    }
}

pub fn gen_string(t: &mut Tape) -> String {
    if t.bool_p(1, 6) {
        let n = t.upto(5);
        let alphabet = ['a', 'b', '*', '\\', '"', '\0', '\u{301}', '\u{1F600}', ' ', 'Z'];
        (0..n).map(|_| alphabet[t.upto(alphabet.len())]).collect()
    } else {
        STRINGS[t.upto(STRINGS.len())].to_string()
    }
}

pub fn gen_value(t: &mut Tape, k: K, depth: usize) -> V {
    match k {
        K::Bool => V::Bool(t.coin()),
        K::Long => V::Long(t.i64_edgy()),
        K::Str => V::Str(gen_string(t)),
        K::Ent => V::Euid(gen_uid(t)),
        K::Set => {
            if depth == 0 {
                return V::Set(BTreeSet::new());
            }
            let ek = if t.bool_p(1, 8) { None } else { Some(*t.pick(&[K::Long, K::Ent, K::Str, K::Long, K::Ent, K::Rec, K::Set, K::Ip])) };
            let n = t.weighted(&[2, 3, 3, 2]);
            V::set((0..n).map(|_| {
                let kk = ek.unwrap_or_else(|| KINDS[t.upto(KINDS.len())]);
                gen_value(t, kk, depth - 1)
            }))
        }
        K::Rec => {
            let mut m = BTreeMap::new();
            if depth > 0 {
                let n = t.weighted(&[2, 3, 3, 1]);
                for _ in 0..n {
                    let (name, kk) = ATTRS[t.upto(ATTRS.len())];
                    let kk = if t.bool_p(1, 8) { KINDS[t.upto(KINDS.len())] } else { kk };
                    m.insert(name.to_string(), gen_value(t, kk, depth - 1));
                }
            }
            V::Rec(m)
        }
        K::Dec => V::Decimal(match t.upto(4) {
            0 => 0,
            1 => t.range(-100000, 100000),
            2 => *t.pick(&[i64::MAX, i64::MIN, 10000, -5000]),
            _ => t.i64_edgy(),
        }),
        K::Ip => {
            let valid: Vec<ext::Ip> = IP_STRS.iter().filter_map(|s| ext::parse_ip(s)).collect();
            V::Ip(valid[t.upto(valid.len())])
        }
        K::Dt => V::Datetime(match t.upto(4) {
            0 => 0,
            1 => t.range(-4_000_000_000_000, 4_000_000_000_000),
            2 => *t.pick(&[86_400_000, -86_400_000, -1, 86_399_999, i64::MAX, i64::MIN]),
            _ => t.i64_edgy(),
        }),
        K::Dur => V::Duration(match t.upto(3) {
            0 => t.range(-100_000, 100_000),
            1 => *t.pick(&[0, 86_400_000, -86_400_000, 3_600_000, i64::MAX, i64::MIN]),
            _ => t.i64_edgy(),
        }),
    }
}

fn gen_attr_map(t: &mut Tape, density: (u32, u32)) -> BTreeMap<String, V> {
    let mut m = BTreeMap::new();
    for (name, k) in ATTRS {
        if t.bool_p(density.0, density.1) {
            let kk = if t.bool_p(1, 8) { KINDS[t.upto(KINDS.len())] } else { k };
            m.insert(name.to_string(), gen_value(t, kk, 2));
        }
    }
    m
}

pub fn gen_world(t: &mut Tape) -> World {
    let pool = uid_pool();
    let mut w = World::default();
    for (i, u) in pool.iter().enumerate() {
        if !t.bool_p(5, 6) {
            continue;
        }
        let mut d = EntityData { attrs: gen_attr_map(t, (1, 2)), ..Default::default() };
        if t.bool_p(1, 2) {
            let n = 1 + t.upto(2);
            for _ in 0..n {
                let k = TAG_KEYS[t.upto(TAG_KEYS.len())];
                let kk = *t.pick(&[K::Str, K::Long, K::Str, K::Ent, K::Set]);
                d.tags.insert(k.to_string(), gen_value(t, kk, 1));
            }
        }
        for p in pool.iter().skip(i + 1) {
            if t.bool_p(1, 4) {
                d.parents.insert(p.clone());
            }
        }
        if t.bool_p(1, 16) {
            d.parents.insert(ghost());
        }
        w.entities.insert(u.clone(), d);
    }
    // action hierarchy
    let acts = actions();
    if t.bool_p(7, 8) {
        for a in &acts[..2] {
            let mut d = EntityData::default();
            d.parents.insert(acts[2].clone());
            w.entities.insert(a.clone(), d);
        }
        w.entities.insert(acts[2].clone(), EntityData::default());
    }
    w
}

pub fn gen_req(t: &mut Tape) -> Req {
    let principal = gen_uid(t);
    let resource = gen_uid(t);
    let action = actions()[t.upto(2)].clone();
    Req { principal, action, resource, context: gen_attr_map(t, (1, 3)) }
}

// ---------------------------------------------------------------------------------------------
// expressions

fn gen_pattern(t: &mut Tape) -> Vec<Pat> {
    let n = t.upto(5);
    (0..n)
        .map(|_| match t.weighted(&[3, 2]) {
            0 => Pat::Char(*t.pick(&['a', 'b', 'c', '*', '\\', '"', '\u{1F600}', '\0', 'e', '\u{301}', 'k', 's'])),
            _ => Pat::Star,
        })
        .collect()
}

fn attr_of_kind(t: &mut Tape, k: K) -> String {
    let names: Vec<&str> = ATTRS.iter().filter(|(_, kk)| *kk == k).map(|(n, _)| *n).collect();
    if names.is_empty() || t.bool_p(1, 10) {
        if t.bool_p(1, 3) {
            "missing".to_string()
        } else {
            ATTRS[t.upto(ATTRS.len())].0.to_string()
        }
    } else {
        names[t.upto(names.len())].to_string()
    }
}

fn leaf(t: &mut Tape, k: K) -> E {
    match k {
        K::Bool => E::bool(t.coin()),
        K::Long => E::long(t.i64_edgy()),
        K::Str => E::Lit(V::Str(gen_string(t))),
        K::Ent => match t.weighted(&[3, 1, 1, 1]) {
            0 => E::Lit(V::Euid(gen_uid(t))),
            1 => E::Var(Var::Principal),
            2 => E::Var(Var::Resource),
            _ => E::Var(Var::Action),
        },
        K::Set => E::Set(vec![]),
        K::Rec => {
            if t.coin() {
                E::Var(Var::Context)
            } else {
                E::Rec(vec![])
            }
        }
        K::Dec => E::Call("decimal".into(), vec![E::str(DEC_STRS[t.upto(DEC_STRS.len())])]),
        K::Ip => E::Call("ip".into(), vec![E::str(IP_STRS[t.upto(IP_STRS.len())])]),
        K::Dt => E::Call("datetime".into(), vec![E::str(DT_STRS[t.upto(DT_STRS.len())])]),
        K::Dur => E::Call("duration".into(), vec![E::str(DUR_STRS[t.upto(DUR_STRS.len())])]),
    }
}

fn gen_tag_key(t: &mut Tape, d: usize) -> E {
    if t.bool_p(3, 4) {
        E::str(TAG_KEYS[t.upto(TAG_KEYS.len())])
    } else {
        gen_expr(t, d.min(1), K::Str)
    }
}

/// A holder of attributes: entity-valued or record-valued expression.
fn gen_holder(t: &mut Tape, d: usize) -> E {
    match t.weighted(&[3, 2, 2, 1]) {
        0 => leaf(t, K::Ent),
        1 => E::Var(Var::Context),
        2 => gen_expr(t, d, K::Ent),
        _ => gen_expr(t, d, K::Rec),
    }
}

fn any_kind(t: &mut Tape) -> K {
    KINDS[t.upto(KINDS.len())]
}

/// Generates an expression that *tends* to have kind `want` (no guarantee: ill-typed operands are injected on purpose).
pub fn gen_expr(t: &mut Tape, depth: usize, want: K) -> E {
    let want = if t.bool_p(1, 16) { any_kind(t) } else { want };
    if depth == 0 {
        return leaf(t, want);
    }
    let d = depth - 1;
    // generic productions available for every kind
    let generic = t.weighted(&[14, 2, 3, 1]);
    match generic {
        1 => return E::If(b(gen_expr(t, d, K::Bool)), b(gen_expr(t, d, want)), b(gen_expr(t, d, want))),
        2 => {
            let h = gen_holder(t, d);
            return E::GetAttr(b(h), attr_of_kind(t, want));
        }
        3 => return E::Bin(BinOp::GetTag, b(if t.coin() { leaf(t, K::Ent) } else { gen_expr(t, d, K::Ent) }), b(gen_tag_key(t, d))),
        _ => {}
    }
    match want {
        K::Bool => match t.upto(20) {
            0 => leaf(t, K::Bool),
            1 => E::Not(b(gen_expr(t, d, K::Bool))),
            2 | 3 => E::And(b(gen_expr(t, d, K::Bool)), b(gen_expr(t, d, K::Bool))),
            4 | 5 => E::Or(b(gen_expr(t, d, K::Bool)), b(gen_expr(t, d, K::Bool))),
            6 | 7 => {
                let k = any_kind(t);
                let op = if t.coin() { BinOp::Eq } else { BinOp::Neq };
                E::Bin(op, b(gen_expr(t, d, k)), b(gen_expr(t, d, k)))
            }
            8 | 9 => {
                let k = *t.pick(&[K::Long, K::Long, K::Long, K::Dt, K::Dur]);
                let op = *t.pick(&[BinOp::Lt, BinOp::Le, BinOp::Gt, BinOp::Ge]);
                E::Bin(op, b(gen_expr(t, d, k)), b(gen_expr(t, d, k)))
            }
            10 | 11 => {
                let rhs = if t.coin() { gen_expr(t, d, K::Ent) } else { gen_expr(t, d, K::Set) };
                E::Bin(BinOp::In, b(gen_expr(t, d, K::Ent)), b(rhs))
            }
            12 => {
                let k = any_kind(t);
                E::Bin(BinOp::Contains, b(gen_expr(t, d, K::Set)), b(gen_expr(t, d, k)))
            }
            13 => {
                let op = if t.coin() { BinOp::ContainsAll } else { BinOp::ContainsAny };
                E::Bin(op, b(gen_expr(t, d, K::Set)), b(gen_expr(t, d, K::Set)))
            }
            14 => E::IsEmpty(b(gen_expr(t, d, K::Set))),
            15 => {
                let h = gen_holder(t, d);
                if t.bool_p(1, 4) {
                    // has-chain: identifiers only
                    let n = 2 + t.upto(2);
                    let idents = ["rec", "n", "s", "ref", "flag", "set", "missing"];
                    E::Has(b(h), (0..n).map(|_| idents[t.upto(idents.len())].to_string()).collect())
                } else {
                    let k = any_kind(t);
                    E::Has(b(h), vec![attr_of_kind(t, k)])
                }
            }
            16 => E::Bin(BinOp::HasTag, b(gen_expr(t, d, K::Ent)), b(gen_tag_key(t, d))),
            17 => E::Like(b(gen_expr(t, d, K::Str)), gen_pattern(t)),
            18 => {
                let ty = *t.pick(&["A", "B", "NS::C", "Action", "Z", "C"]);
                let inn = if t.bool_p(1, 3) { Some(b(if t.coin() { gen_expr(t, d, K::Ent) } else { gen_expr(t, d, K::Set) })) } else { None };
                E::Is(b(gen_expr(t, d, K::Ent)), ty.to_string(), inn)
            }
            _ => match t.upto(3) {
                0 => {
                    let f = *t.pick(&["lessThan", "lessThanOrEqual", "greaterThan", "greaterThanOrEqual"]);
                    E::Call(f.into(), vec![gen_expr(t, d, K::Dec), gen_expr(t, d, K::Dec)])
                }
                1 => {
                    let f = *t.pick(&["isIpv4", "isIpv6", "isLoopback", "isMulticast"]);
                    E::Call(f.into(), vec![gen_expr(t, d, K::Ip)])
                }
                _ => E::Call("isInRange".into(), vec![gen_expr(t, d, K::Ip), gen_expr(t, d, K::Ip)]),
            },
        },
        K::Long => match t.upto(8) {
            0 => leaf(t, K::Long),
            1 | 2 => E::Bin(BinOp::Add, b(gen_expr(t, d, K::Long)), b(gen_expr(t, d, K::Long))),
            3 => E::Bin(BinOp::Sub, b(gen_expr(t, d, K::Long)), b(gen_expr(t, d, K::Long))),
            4 | 5 => E::Bin(BinOp::Mul, b(gen_expr(t, d, K::Long)), b(gen_expr(t, d, K::Long))),
            6 => E::Neg(b(gen_expr(t, d, K::Long))),
            _ => {
                let f = *t.pick(&["toMilliseconds", "toSeconds", "toMinutes", "toHours", "toDays"]);
                E::Call(f.into(), vec![gen_expr(t, d, K::Dur)])
            }
        },
        K::Str => leaf(t, K::Str),
        K::Ent => leaf(t, K::Ent),
        K::Set => {
            let n = t.weighted(&[1, 3, 3, 2]);
            let k = if t.bool_p(1, 6) { None } else { Some(*t.pick(&[K::Long, K::Ent, K::Ent, K::Str, K::Set, K::Rec, K::Bool])) };
            E::Set(
                (0..n)
                    .map(|_| {
                        let kk = k.unwrap_or_else(|| any_kind(t));
                        gen_expr(t, d, kk)
                    })
                    .collect(),
            )
        }
        K::Rec => {
            if t.bool_p(1, 4) {
                return E::Var(Var::Context);
            }
            let n = t.weighted(&[1, 3, 3, 1]);
            let mut seen = BTreeSet::new();
            let mut fs = Vec::new();
            for _ in 0..n {
                let (name, k) = ATTRS[t.upto(ATTRS.len())];
                if seen.insert(name) {
                    let kk = if t.bool_p(1, 6) { any_kind(t) } else { k };
                    fs.push((name.to_string(), gen_expr(t, d, kk)));
                }
            }
            E::Rec(fs)
        }
        K::Dec => {
            if t.bool_p(1, 12) {
                // arity error: constructor with 0 or 2 arguments
                let args = if t.coin() { vec![] } else { vec![gen_expr(t, d, K::Str), gen_expr(t, d, K::Str)] };
                E::Call("decimal".into(), args)
            } else {
                E::Call("decimal".into(), vec![if t.bool_p(1, 8) { gen_expr(t, d, K::Str) } else { E::str(DEC_STRS[t.upto(DEC_STRS.len())]) }])
            }
        }
        K::Ip => E::Call("ip".into(), vec![if t.bool_p(1, 8) { gen_expr(t, d, K::Str) } else { E::str(IP_STRS[t.upto(IP_STRS.len())]) }]),
        K::Dt => match t.upto(4) {
            0 => E::Call("offset".into(), vec![gen_expr(t, d, K::Dt), gen_expr(t, d, K::Dur)]),
            1 => E::Call("toDate".into(), vec![gen_expr(t, d, K::Dt)]),
            _ => leaf(t, K::Dt),
        },
        K::Dur => match t.upto(4) {
            0 => E::Call("durationSince".into(), vec![gen_expr(t, d, K::Dt), gen_expr(t, d, K::Dt)]),
            1 => E::Call("toTime".into(), vec![gen_expr(t, d, K::Dt)]),
            _ => leaf(t, K::Dur),
        },
    }
}

// ---------------------------------------------------------------------------------------------
// policies over the U universe

use crate::refmodel::policy::{ActC, EntRef, PrC, RPolicy};

pub const ANN_KEYS: [&str; 6] = ["id", "advice", "if", "in", "a_b", "permit"];

pub fn gen_prc(t: &mut Tape, allow_slot: bool) -> PrC {
    let tys = ["A", "B", "NS::C", "C", "Action"];
    let r = |t: &mut Tape| if allow_slot && t.bool_p(1, 2) { EntRef::Slot } else { EntRef::Uid(gen_uid(t)) };
    match t.weighted(&[4, 2, 2, 1, 1]) {
        0 => PrC::Any,
        1 => PrC::Eq(r(t)),
        2 => PrC::In(r(t)),
        3 => PrC::Is(tys[t.upto(tys.len())].to_string()),
        _ => {
            let ty = tys[t.upto(tys.len())].to_string();
            PrC::IsIn(ty, r(t))
        }
    }
}

pub fn gen_actc(t: &mut Tape) -> ActC {
    let acts = actions();
    match t.weighted(&[4, 2, 2, 2]) {
        0 => ActC::Any,
        1 => ActC::Eq(acts[t.upto(3)].clone()),
        2 => ActC::In(acts[t.upto(3)].clone()),
        _ => {
            let n = t.upto(4);
            ActC::InSet((0..n).map(|_| acts[t.upto(3)].clone()).collect())
        }
    }
}

pub fn gen_annotations(t: &mut Tape) -> Vec<(String, String)> {
    let n = t.weighted(&[6, 2, 1]);
    let mut out: Vec<(String, String)> = Vec::new();
    for _ in 0..n {
        let k = ANN_KEYS[t.upto(ANN_KEYS.len())];
        if !out.iter().any(|(kk, _)| kk == k) {
            out.push((k.to_string(), gen_string(t)));
        }
    }
    out
}

/// `slots`: 0 = static policy, 1 = ?principal, 2 = ?resource, 3 = both
pub fn gen_policy(t: &mut Tape, slots: u8, cond_depth: usize) -> RPolicy {
    let permit = t.bool_p(3, 5);
    let mut principal = gen_prc(t, false);
    let mut resource = gen_prc(t, false);
    if slots & 1 != 0 {
        principal = match t.upto(3) {
            0 => PrC::Eq(EntRef::Slot),
            1 => PrC::In(EntRef::Slot),
            _ => PrC::IsIn((*t.pick(&["A", "B", "NS::C"])).to_string(), EntRef::Slot),
        };
    }
    if slots & 2 != 0 {
        resource = match t.upto(3) {
            0 => PrC::Eq(EntRef::Slot),
            1 => PrC::In(EntRef::Slot),
            _ => PrC::IsIn((*t.pick(&["A", "B", "NS::C"])).to_string(), EntRef::Slot),
        };
    }
    let action = gen_actc(t);
    let nc = t.weighted(&[2, 5, 2, 1]);
    let conds = (0..nc)
        .map(|_| {
            let when = t.bool_p(3, 4);
            let d = 1 + t.upto(cond_depth.max(1));
            (when, gen_expr(t, d, K::Bool))
        })
        .collect();
    RPolicy { permit, principal, action, resource, conds, annotations: gen_annotations(t) }
}
