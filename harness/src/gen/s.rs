//! Schema-G, World-S (conformant by construction) and Policy-T (type-directed policies with guard idioms and traps).

use crate::refmodel::policy::{ActC, EntRef, PrC, RPolicy};
use crate::refmodel::schema::*;
use crate::refmodel::*;
use crate::tape::Tape;
use std::collections::{BTreeMap, BTreeSet};

pub const ET_NAMES: [&str; 6] = ["User", "Group", "Doc", "Folder", "Team", "Org"];
pub const ATTR_NAMES: [&str; 18] = ["name", "age", "owner", "manager", "flag", "ip", "when", "score", "nested", "items", "if", "has space", "peers", "ttl", "type", "id", "fn", "arg"];
pub const ACTION_IDS: [&str; 5] = ["view", "edit", "delete", "a b", "share"];
pub const TAG_KEYS: [&str; 4] = ["k", "color", "", "a b"];
pub const STRS: [&str; 8] = ["", "a", "abc", "a*c", "x\"y", "\u{1F600}", "k", "color"];

#[derive(Clone, Copy, Debug)]
pub struct SchemaOpts {
    /// allow two namespaces
    pub multi_ns: bool,
    /// bias towards entity-typed attributes / tags / context fields (chains for level & manifest checks)
    pub chains: bool,
    pub allow_enum: bool,
    pub allow_tags: bool,
    pub allow_ext: bool,
    /// allow an entity type to be named like a primitive or extension type (`String`, `Long`, `Bool`, `ipaddr`):
    /// unqualified uses of that name then denote the entity type and the built-in must be written `__cedar::…`
    pub shadow: bool,
}

impl Default for SchemaOpts {
    fn default() -> Self {
        SchemaOpts { multi_ns: true, chains: false, allow_enum: true, allow_tags: true, allow_ext: true, shadow: false }
    }
}

pub fn gen_rtype(t: &mut Tape, depth: usize, ets: &[String], o: &SchemaOpts) -> RType {
    let w_ent = if o.chains { 8 } else { 3 };
    let w_ext = if o.allow_ext { 2 } else { 0 };
    match t.weighted(&[3, 2, 3, w_ent, if depth > 0 { 2 } else { 0 }, if depth > 0 { 2 } else { 0 }, w_ext]) {
        0 => RType::Long,
        1 => RType::Bool,
        2 => RType::Str,
        3 => RType::Ent(ets[t.upto(ets.len())].clone()),
        4 => RType::Set(Box::new(gen_rtype(t, depth - 1, ets, o))),
        5 => RType::Rec(gen_attrs(t, depth - 1, ets, o, 3)),
        _ => RType::Ext(*t.pick(&["decimal", "ipaddr", "datetime", "duration"])),
    }
}

pub fn gen_attrs(t: &mut Tape, depth: usize, ets: &[String], o: &SchemaOpts, max: usize) -> RAttrs {
    let n = t.len_biased(max) + if t.coin() { 1 } else { 0 };
    let mut m = RAttrs::new();
    for _ in 0..n.min(max) {
        let name = ATTR_NAMES[t.upto(ATTR_NAMES.len())];
        let ty = gen_rtype(t, depth, ets, o);
        let req = t.bool_p(3, 5);
        m.insert(name.to_string(), (ty, req));
    }
    // twin attributes: the same type under a sibling name of the same length (`home` / `work`, `owner` / `peers`) —
    // a guard written for one of them must not make the other one safe
    if !m.is_empty() && t.bool_p(1, 4) {
        let keys: Vec<String> = m.keys().cloned().collect();
        let k = keys[t.upto(keys.len())].clone();
        let alts: Vec<&str> = ATTR_NAMES.iter().copied().filter(|a| a.len() == k.len() && !m.contains_key(*a)).collect();
        if !alts.is_empty() {
            let twin = m[&k].clone();
            m.insert(alts[t.upto(alts.len())].to_string(), twin);
        }
    }
    m
}

pub fn gen_schema(t: &mut Tape, o: &SchemaOpts) -> RSchema {
    let ns_main = if t.coin() { "NS" } else { "" };
    let ns_other = if o.multi_ns && t.coin() { Some(if ns_main.is_empty() { "Other" } else { "" }) } else { None };
    let q = |ns: &str, b: &str| if ns.is_empty() { b.to_string() } else { format!("{ns}::{b}") };
    let n_et = 2 + t.upto(3);
    let perm = t.permutation(ET_NAMES.len());
    let mut names: Vec<String> = Vec::new();
    for i in 0..n_et {
        let ns = match ns_other {
            Some(o2) if t.bool_p(1, 3) => o2,
            _ => ns_main,
        };
        names.push(q(ns, ET_NAMES[perm[i]]));
    }
    if o.shadow && t.bool_p(1, 3) {
        let i = t.upto(names.len());
        let (ns, _) = split_name(&names[i]);
        names[i] = q(&ns, *t.pick(&["String", "Long", "Bool", "ipaddr"]));
    }
    let enum_ix = if o.allow_enum && t.bool_p(1, 3) { Some(n_et - 1) } else { None };
    let normal: Vec<String> = names.iter().enumerate().filter(|(i, _)| Some(*i) != enum_ix).map(|(_, n)| n.clone()).collect();
    let mut ets = Vec::new();
    for (i, name) in names.iter().enumerate() {
        if Some(i) == enum_ix {
            let ids: Vec<String> = ["red", "green", "blue", "a b"][..1 + t.upto(4)].iter().map(|s| s.to_string()).collect();
            ets.push(REntityType { name: name.clone(), attrs: RAttrs::new(), tags: None, member_of: vec![], enum_ids: Some(ids) });
            continue;
        }
        let mut member_of = Vec::new();
        for p in &normal {
            if t.bool_p(1, 3) {
                member_of.push(p.clone());
            }
        }
        // an enumerated type may be a parent type as well (its entities have no parents themselves)
        if let Some(ei) = enum_ix {
            if t.bool_p(1, 4) {
                member_of.push(names[ei].clone());
            }
        }
        let attrs = gen_attrs(t, 2, &names, o, 4);
        let tags = if o.allow_tags && t.bool_p(1, 3) {
            Some(match t.upto(5) {
                0 => RType::Str,
                1 => RType::Long,
                2 => RType::Set(Box::new(RType::Str)),
                3 => RType::Ent(names[t.upto(names.len())].clone()),
                _ => RType::Str,
            })
        } else {
            None
        };
        ets.push(REntityType { name: name.clone(), attrs, tags, member_of, enum_ids: None });
    }
    let n_act = 1 + t.upto(3);
    let aperm = t.permutation(ACTION_IDS.len());
    let mut actions: Vec<RAction> = Vec::new();
    // optionally one pure group
    let has_group = t.coin();
    if has_group {
        actions.push(RAction { ns: ns_main.to_string(), id: "all".into(), principals: vec![], resources: vec![], context: RAttrs::new(), member_of: vec![] });
    }
    // optionally a pure group declared in the other namespace (cross-namespace action membership)
    let foreign_group = match ns_other {
        Some(o2) if t.coin() => {
            actions.push(RAction { ns: o2.to_string(), id: "readOnly".into(), principals: vec![], resources: vec![], context: RAttrs::new(), member_of: vec![] });
            Some(actions[actions.len() - 1].uid())
        }
        _ => None,
    };
    for i in 0..n_act {
        let pick_types = |t: &mut Tape| -> Vec<String> {
            let k = 1 + t.weighted(&[3, 1]);
            let mut v = Vec::new();
            for _ in 0..k {
                let c = if enum_ix.is_some() && t.bool_p(1, 8) { names[t.upto(names.len())].clone() } else { normal[t.upto(normal.len())].clone() };
                if !v.contains(&c) {
                    v.push(c);
                }
            }
            v
        };
        let principals = pick_types(t);
        let resources = pick_types(t);
        let context = gen_attrs(t, 2, &names, o, 3);
        let mut member_of = Vec::new();
        if has_group && t.coin() {
            member_of.push(Uid { ty: if ns_main.is_empty() { "Action".to_string() } else { format!("{ns_main}::Action") }, id: "all".to_string() });
        }
        if let Some(g) = &foreign_group {
            if t.coin() {
                member_of.push(g.clone());
            }
        }
        if i > 0 && t.bool_p(1, 4) {
            // an action that is also a group for a later one
            let prev = &actions[actions.len() - 1];
            if prev.ns == ns_main && !prev.principals.is_empty() {
                member_of.push(prev.uid());
            }
        }
        actions.push(RAction { ns: ns_main.to_string(), id: ACTION_IDS[aperm[i]].to_string(), principals, resources, context, member_of });
    }
    RSchema { entity_types: ets, actions }
}

// ---------------------------------------------------------------------------------------------
// worlds

pub fn instance_ids(e: &REntityType) -> Vec<String> {
    match &e.enum_ids {
        Some(ids) => ids.clone(),
        None => vec!["0".into(), "1".into(), "2".into(), "q\"x".into()],
    }
}

pub fn gen_uid_of(t: &mut Tape, s: &RSchema, ty: &str) -> Uid {
    let ids = s.et(ty).map(instance_ids).unwrap_or_else(|| vec!["0".into()]);
    // the last id of a non-enumerated type never has a record (a dangling reference): rarer in dense mode
    let dense = DENSE_WORLD.with(|c| c.get()) && s.et(ty).map(|e| e.enum_ids.is_none()).unwrap_or(false) && ids.len() == 4;
    let i = if dense { t.weighted(&[4, 4, 4, 1]) } else { t.upto(ids.len()) };
    Uid { ty: ty.to_string(), id: ids[i].clone() }
}

pub fn gen_value_of(t: &mut Tape, ty: &RType, s: &RSchema, depth: usize) -> V {
    match ty {
        RType::Bool => V::Bool(t.coin()),
        RType::Long => V::Long(match t.upto(4) {
            0 => t.range(-3, 3),
            1 => t.range(-100, 100),
            _ => t.i64_edgy(),
        }),
        RType::Str => V::Str(STRS[t.upto(STRS.len())].to_string()),
        RType::Ent(n) => V::Euid(gen_uid_of(t, s, n)),
        RType::Set(el) => {
            let n = t.weighted(&[2, 3, 3, 1]);
            V::set((0..n).map(|_| gen_value_of(t, el, s, depth.saturating_sub(1))))
        }
        RType::Rec(attrs) => V::Rec(gen_attr_values(t, attrs, s, depth.saturating_sub(1))),
        RType::Ext("decimal") => V::Decimal(match t.upto(3) {
            0 => t.range(-50_000, 50_000),
            1 => *t.pick(&[0i64, 10_000, i64::MAX, i64::MIN]),
            _ => t.i64_edgy(),
        }),
        RType::Ext("ipaddr") => {
            let pool = ["127.0.0.1", "10.0.0.0/8", "10.1.2.3", "0.0.0.0/0", "::1", "ff00::/8", "224.0.0.1", "192.168.0.0/16", "::ffff:a00:1", "::a00:1/120"];
            V::Ip(ext::parse_ip(pool[t.upto(pool.len())]).unwrap())
        }
        RType::Ext("datetime") => V::Datetime(match t.upto(3) {
            0 => t.range(-200_000_000, 200_000_000),
            1 => *t.pick(&[0i64, 86_400_000, -86_400_000, -1, i64::MAX, i64::MIN]),
            _ => t.range(0, 2_000_000_000_000),
        }),
        RType::Ext(_) => V::Duration(match t.upto(3) {
            0 => t.range(-100_000, 100_000),
            1 => *t.pick(&[0i64, 86_400_000, -86_400_000, i64::MAX, i64::MIN]),
            _ => t.i64_edgy(),
        }),
    }
}

pub fn gen_attr_values(t: &mut Tape, attrs: &RAttrs, s: &RSchema, depth: usize) -> BTreeMap<String, V> {
    let mut m = BTreeMap::new();
    for (k, (ty, req)) in attrs {
        let dense = DENSE_WORLD.with(|c| c.get());
        if *req || if dense { t.bool_p(4, 5) } else { t.coin() } {
            m.insert(k.clone(), gen_value_of(t, ty, s, depth));
        }
    }
    m
}

/// A conformant store: 0..3 instances per non-enum type (ids "0","1","2"; "q\"x" is never present),
/// enum entities optionally present, parents only of permitted types and only "later" instances (a DAG).
pub fn gen_world(t: &mut Tape, s: &RSchema) -> World {
    let mut order: Vec<Uid> = Vec::new();
    for e in &s.entity_types {
        match &e.enum_ids {
            Some(ids) => {
                for id in ids {
                    if t.bool_p(1, 3) {
                        order.push(Uid { ty: e.name.clone(), id: id.clone() });
                    }
                }
            }
            None => {
                let n = if DENSE_WORLD.with(|c| c.get()) { t.weighted(&[0, 1, 4, 5]) } else { t.weighted(&[1, 3, 4, 3]) };
                for i in 0..n {
                    order.push(Uid { ty: e.name.clone(), id: i.to_string() });
                }
            }
        }
    }
    let perm = t.permutation(order.len());
    let order: Vec<Uid> = perm.iter().map(|i| order[*i].clone()).collect();
    let mut w = World::default();
    for (i, u) in order.iter().enumerate() {
        let e = s.et(&u.ty).unwrap();
        let mut d = EntityData::default();
        if e.enum_ids.is_none() {
            d.attrs = gen_attr_values(t, &e.attrs, s, 2);
            if let Some(tt) = &e.tags {
                let n = t.weighted(&[2, 3, 2]);
                for _ in 0..n {
                    d.tags.insert(TAG_KEYS[t.upto(TAG_KEYS.len())].to_string(), gen_value_of(t, tt, s, 1));
                }
            }
            for p in order.iter().skip(i + 1) {
                if e.member_of.contains(&p.ty) && if DENSE_WORLD.with(|c| c.get()) { t.bool_p(3, 5) } else { t.bool_p(2, 5) } {
                    d.parents.insert(p.clone());
                }
            }
            // occasionally a parent without a record
            if !e.member_of.is_empty() && t.bool_p(1, 12) {
                let pt = &e.member_of[t.upto(e.member_of.len())];
                let id = match s.et(pt).and_then(|x| x.enum_ids.clone()) {
                    Some(ids) => ids[t.upto(ids.len())].clone(),
                    None => "q\"x".to_string(),
                };
                d.parents.insert(Uid { ty: pt.clone(), id });
            }
        }
        w.entities.insert(u.clone(), d);
    }
    w
}

/// Action entities as the schema defines them (parents = transitive closure is computed by the store).
pub fn action_entities(s: &RSchema) -> World {
    let mut w = World::default();
    for a in &s.actions {
        let mut d = EntityData::default();
        for g in &a.member_of {
            d.parents.insert(g.clone());
        }
        w.entities.insert(a.uid(), d);
    }
    w
}

pub fn appliable_actions(s: &RSchema) -> Vec<&RAction> {
    s.actions.iter().filter(|a| !a.principals.is_empty() && !a.resources.is_empty()).collect()
}

/// A conformant request for the given action (principal/resource present or absent in the store).
pub fn gen_request_for(t: &mut Tape, s: &RSchema, a: &RAction, ptype: &str, rtype: &str) -> Req {
    Req { principal: gen_uid_of(t, s, ptype), action: a.uid(), resource: gen_uid_of(t, s, rtype), context: gen_attr_values(t, &a.context, s, 2) }
}

pub fn gen_request(t: &mut Tape, s: &RSchema) -> Option<Req> {
    let acts = appliable_actions(s);
    if acts.is_empty() {
        return None;
    }
    let a = acts[t.upto(acts.len())];
    let p = a.principals[t.upto(a.principals.len())].clone();
    let r = a.resources[t.upto(a.resources.len())].clone();
    Some(gen_request_for(t, s, a, &p, &r))
}

// ---------------------------------------------------------------------------------------------
// typed expressions

#[derive(Clone, Debug)]
pub struct Env<'a> {
    pub s: &'a RSchema,
    pub principal: String,
    pub action: &'a RAction,
    pub resource: String,
}

/// An access path: an expression, its type, and the `has` guards that make it safe.
#[derive(Clone, Debug)]
pub struct Path {
    pub e: E,
    pub ty: RType,
    pub guards: Vec<E>,
    /// number of entity dereferences (attribute/tag access on an entity) in the path
    pub derefs: usize,
}

fn attr_paths(base: &E, attrs: &RAttrs, guards: &[E], derefs: usize, env: &Env<'_>, budget: usize, out: &mut Vec<Path>) {
    for (k, (ty, req)) in attrs {
        let e = E::GetAttr(b(base.clone()), k.clone());
        let mut g = guards.to_vec();
        if !*req {
            g.push(E::Has(b(base.clone()), vec![k.clone()]));
        }
        out.push(Path { e: e.clone(), ty: ty.clone(), guards: g.clone(), derefs });
        extend(&e, ty, &g, derefs, env, budget, out);
    }
}

fn extend(e: &E, ty: &RType, guards: &[E], derefs: usize, env: &Env<'_>, budget: usize, out: &mut Vec<Path>) {
    if budget == 0 {
        return;
    }
    match ty {
        RType::Rec(attrs) => attr_paths(e, attrs, guards, derefs, env, budget - 1, out),
        RType::Ent(n) => {
            if let Some(et) = env.s.et(n) {
                attr_paths(e, &et.attrs, guards, derefs + 1, env, budget - 1, out);
            }
        }
        _ => {}
    }
}

pub fn paths(env: &Env<'_>, budget: usize) -> Vec<Path> {
    let mut out = Vec::new();
    let p = E::Var(Var::Principal);
    let r = E::Var(Var::Resource);
    let c = E::Var(Var::Context);
    out.push(Path { e: p.clone(), ty: RType::Ent(env.principal.clone()), guards: vec![], derefs: 0 });
    out.push(Path { e: r.clone(), ty: RType::Ent(env.resource.clone()), guards: vec![], derefs: 0 });
    extend(&p, &RType::Ent(env.principal.clone()), &[], 0, env, budget, &mut out);
    extend(&r, &RType::Ent(env.resource.clone()), &[], 0, env, budget, &mut out);
    attr_paths(&c, &env.action.context, &[], 0, env, budget, &mut out);
    out
}

thread_local! {
    /// set when a policy generated on this thread dereferences an if-then-else whose branches have different depths
    pub static COMPOUND_DEPTHS_DIFFER: std::cell::Cell<bool> = const { std::cell::Cell::new(false) };
    /// level validation rejects every dereference (`in`, `has`, attribute or tag access) of an entity *literal* at every
    /// level; the level and manifest checks ask the generator not to spend half of its policies on that
    /// set when a policy tests one subject for membership in an access path and in an extension of that path
    pub static NESTED_IN_TARGETS: std::cell::Cell<bool> = const { std::cell::Cell::new(false) };
    /// denser stores (more instances, optional attributes mostly present, more parent edges): the slicing checks need data
    /// to actually flow through the access paths of the policies
    pub static DENSE_WORLD: std::cell::Cell<bool> = const { std::cell::Cell::new(false) };
    pub static LEVEL_FRIENDLY: std::cell::Cell<bool> = const { std::cell::Cell::new(false) };
}

pub struct TGen<'a> {
    pub env: Env<'a>,
    pub paths: Vec<Path>,
    /// which trap to plant (0 = none); decremented when a trap site is reached
    pub trap: Option<u32>,
    pub trap_planted: Option<&'static str>,
    pub uses_optional: bool,
    pub uses_tags: bool,
    pub max_derefs: usize,
}

pub fn is_simple(ty: &RType) -> bool {
    match ty {
        RType::Rec(_) => false,
        RType::Set(el) => is_simple(el),
        _ => true,
    }
}

/// is the access path `a` a proper prefix of the access path `b` (as attribute chains)?
fn is_proper_prefix(a: &E, b: &E) -> bool {
    let mut cur = b;
    while let E::GetAttr(inner, _) = cur {
        if format!("{:?}", inner) == format!("{:?}", a) {
            return true;
        }
        cur = inner;
    }
    false
}

fn conj(mut gs: Vec<E>, last: E) -> E {
    gs.push(last);
    let mut it = gs.into_iter();
    let first = it.next().unwrap();
    it.fold(first, |acc, x| E::And(b(acc), b(x)))
}

impl<'a> TGen<'a> {
    pub fn new(env: Env<'a>, budget: usize) -> TGen<'a> {
        let paths = paths(&env, budget);
        TGen { env, paths, trap: None, trap_planted: None, uses_optional: false, uses_tags: false, max_derefs: 0 }
    }

    fn trap_here(&mut self, t: &mut Tape, kind: &'static str) -> bool {
        if self.trap.is_some() && self.trap_planted.is_none() && t.bool_p(1, 2) {
            self.trap_planted = Some(kind);
            true
        } else {
            false
        }
    }

    pub fn lit_of(&mut self, t: &mut Tape, ty: &RType) -> E {
        // sets must be non-empty in the conservative fragment (strict mode rejects `[]`)
        match ty {
            RType::Set(el) => {
                // record literals differ in optionality from each other: one element only for record-bearing sets
                let n = if is_simple(el) { 1 + t.upto(2) } else { 1 };
                E::Set((0..n).map(|_| self.lit_of(t, el)).collect())
            }
            RType::Rec(attrs) => {
                let mut fs = Vec::new();
                for (k, (ty, req)) in attrs {
                    if *req || t.coin() {
                        fs.push((k.clone(), self.lit_of(t, ty)));
                    }
                }
                E::Rec(fs)
            }
            _ => {
                let v = gen_value_of(t, ty, self.env.s, 1);
                match (&v, ty) {
                    // extension literals: spell with a plain constructor call on a valid literal string
                    (V::Datetime(_), _) => E::Call("datetime".into(), vec![E::str(*t.pick(&["2024-01-01", "1970-01-01T00:00:00Z", "1999-12-31T23:59:59.999+0130"]))]),
                    _ => crate::emit::text::value_expr(&v),
                }
            }
        }
    }

    /// candidates of exactly this type
    fn paths_of(&self, ty: &RType) -> Vec<usize> {
        self.paths.iter().enumerate().filter(|(_, p)| &p.ty == ty).map(|(i, _)| i).collect()
    }

    /// A (guards, expression) pair of the wanted type; guards must hold for the expression to be safe.
    pub fn term(&mut self, t: &mut Tape, ty: &RType, depth: usize) -> (Vec<E>, E) {
        if depth > 0 && t.bool_p(1, 8) {
            // an attribute of a *compound* entity expression: `(if c then p1 else p2).k` where p1, p2 are access paths of
            // the same entity type with (possibly) different dereference depths; the level of the target is the deeper one
            let mut sites: Vec<(String, String, bool)> = Vec::new();
            let mut seen = BTreeSet::new();
            for p in &self.paths {
                if let RType::Ent(n) = &p.ty {
                    if seen.insert(n.clone()) {
                        if let Some(et) = self.env.s.et(n) {
                            for (k, (kty, req)) in &et.attrs {
                                if kty == ty {
                                    sites.push((n.clone(), k.clone(), *req));
                                }
                            }
                        }
                    }
                }
            }
            if !sites.is_empty() {
                let (n, k, req) = sites[t.upto(sites.len())].clone();
                let cands = self.paths_of(&RType::Ent(n));
                let p1 = self.paths[cands[t.upto(cands.len())]].clone();
                let mut p2 = self.paths[cands[t.upto(cands.len())]].clone();
                // prefer branches of different depth
                for _ in 0..2 {
                    if p2.derefs == p1.derefs {
                        p2 = self.paths[cands[t.upto(cands.len())]].clone();
                    }
                }
                let c = self.boolean(t, 0);
                let target = match t.upto(4) {
                    0 => E::GetAttr(b(E::Rec(vec![("f".to_string(), E::If(b(c), b(p1.e), b(p2.e)))])), "f".to_string()),
                    1 => E::If(b(c), b(E::GetAttr(b(E::Rec(vec![("f".to_string(), p1.e)])), "f".to_string())), b(p2.e)),
                    _ => E::If(b(c), b(p1.e), b(p2.e)),
                };
                let mut g = p1.guards;
                g.extend(p2.guards);
                if !g.is_empty() || !req {
                    self.uses_optional = true;
                }
                if !req {
                    g.push(E::Has(b(target.clone()), vec![k.clone()]));
                }
                if p1.derefs != p2.derefs {
                    COMPOUND_DEPTHS_DIFFER.with(|c| c.set(true));
                }
                self.max_derefs = self.max_derefs.max(p1.derefs.max(p2.derefs) + 1);
                return (g, E::GetAttr(b(target), k));
            }
        }
        let cands = self.paths_of(ty);
        let use_path = !cands.is_empty() && t.bool_p(3, 5);
        if use_path {
            let p = self.paths[cands[t.upto(cands.len())]].clone();
            if !p.guards.is_empty() {
                self.uses_optional = true;
            }
            self.max_derefs = self.max_derefs.max(p.derefs);
            return (p.guards, p.e);
        }
        if depth > 0 && t.bool_p(1, 12) {
            // a record literal that is projected right away: `{f: e}.f` (hides a dereference from a syntactic level count)
            // sibling fields are evaluated too although they are not projected: they may dereference deeper than `f`
            let (mut g, e) = self.term(t, ty, depth - 1);
            let mut fields = vec![("f".to_string(), e)];
            for name in ["a", "z"] {
                if t.bool_p(1, 2) {
                    let sty = if !self.paths.is_empty() { self.paths[t.upto(self.paths.len())].ty.clone() } else { RType::Long };
                    let (g2, e2) = self.term(t, &sty, 0);
                    g.extend(g2);
                    fields.push((name.to_string(), e2));
                }
            }
            fields.sort_by(|x, y| x.0.cmp(&y.0));
            return (g, E::GetAttr(b(E::Rec(fields)), "f".to_string()));
        }
        if depth > 0 {
            match ty {
                RType::Long => match t.upto(5) {
                    0 | 1 => {
                        let (mut g1, a) = self.term(t, &RType::Long, depth - 1);
                        let (g2, c) = self.term(t, &RType::Long, depth - 1);
                        g1.extend(g2);
                        let op = *t.pick(&[BinOp::Add, BinOp::Sub, BinOp::Mul]);
                        return (g1, E::Bin(op, b(a), b(c)));
                    }
                    2 => {
                        let (g, a) = self.term(t, &RType::Long, depth - 1);
                        return (g, E::Neg(b(a)));
                    }
                    3 => {
                        let (g, a) = self.term(t, &RType::Ext("duration"), depth - 1);
                        let f = *t.pick(&["toMilliseconds", "toSeconds", "toMinutes", "toHours", "toDays"]);
                        return (g, E::Call(f.into(), vec![a]));
                    }
                    _ => {}
                },
                RType::Ext("datetime") => {
                    if t.coin() {
                        let (mut g1, a) = self.term(t, &RType::Ext("datetime"), depth - 1);
                        let (g2, d) = self.term(t, &RType::Ext("duration"), depth - 1);
                        g1.extend(g2);
                        return (g1, E::Call("offset".into(), vec![a, d]));
                    }
                }
                RType::Ext("duration") => {
                    if t.coin() {
                        let (mut g1, a) = self.term(t, &RType::Ext("datetime"), depth - 1);
                        let (g2, c) = self.term(t, &RType::Ext("datetime"), depth - 1);
                        g1.extend(g2);
                        return (g1, E::Call("durationSince".into(), vec![a, c]));
                    }
                }
                _ => {}
            }
            // if-then-else producing the wanted type (record-free types only: record literals and declared
            // record types differ in optionality, which strict mode treats as different types)
            if is_simple(ty) && t.bool_p(1, 6) {
                let c = self.boolean(t, depth - 1);
                let (g1, a) = self.term(t, ty, depth - 1);
                let (g2, x) = self.term(t, ty, depth - 1);
                // guards of the branches are discharged inside the branches
                let a = if g1.is_empty() { a } else { E::If(b(conj(g1, E::bool(true))), b(a), b(self.lit_of(t, ty))) };
                let x = if g2.is_empty() { x } else { E::If(b(conj(g2, E::bool(true))), b(x), b(self.lit_of(t, ty))) };
                return (vec![], E::If(b(c), b(a), b(x)));
            }
        }
        (vec![], self.lit_of(t, ty))
    }

    /// an atomic predicate over some access path or literal, with its guards
    fn atom(&mut self, t: &mut Tape, depth: usize) -> (Vec<E>, E) {
        // tag atoms
        let tagged: Vec<(E, RType, Vec<E>, usize)> = self
            .paths
            .iter()
            .filter_map(|p| match &p.ty {
                RType::Ent(n) => self.env.s.et(n).and_then(|e| e.tags.clone()).map(|tt| (p.e.clone(), tt, p.guards.clone(), p.derefs)),
                _ => None,
            })
            .collect();
        if !tagged.is_empty() && t.bool_p(1, 6) {
            let (holder, tt, mut guards, derefs) = tagged[t.upto(tagged.len())].clone();
            self.uses_tags = true;
            self.max_derefs = self.max_derefs.max(derefs + 1);
            let key = if t.bool_p(3, 4) {
                E::str(TAG_KEYS[t.upto(TAG_KEYS.len())])
            } else {
                let (g, k) = self.term(t, &RType::Str, 0);
                guards.extend(g);
                k
            };
            if t.bool_p(1, 3) {
                return (guards, E::Bin(BinOp::HasTag, b(holder), b(key)));
            }
            guards.push(E::Bin(BinOp::HasTag, b(holder.clone()), b(key.clone())));
            let got = E::Bin(BinOp::GetTag, b(holder), b(key));
            let pred = self.pred_on(t, got, &tt, depth);
            return (guards, pred);
        }
        let ty = if !self.paths.is_empty() && t.bool_p(4, 5) { self.paths[t.upto(self.paths.len())].ty.clone() } else { RType::Long };
        let (g, e) = self.term(t, &ty, depth);
        let pred = self.pred_on(t, e, &ty, depth);
        (g, pred)
    }

    /// a boolean expression about a term of the given type
    fn pred_on(&mut self, t: &mut Tape, e: E, ty: &RType, depth: usize) -> E {
        match ty {
            RType::Bool => {
                if t.coin() {
                    e
                } else {
                    E::Bin(BinOp::Eq, b(e), b(E::bool(t.coin())))
                }
            }
            RType::Long => {
                // arithmetic on the subject (can overflow on the edgy values World-S favours)
                let e = match t.upto(8) {
                    0 => {
                        let (g0, o0) = self.term(t, &RType::Long, 0);
                        let op = *t.pick(&[BinOp::Add, BinOp::Sub, BinOp::Mul]);
                        let a = E::Bin(op, b(e), b(o0));
                        if g0.is_empty() { a } else { E::If(b(conj(g0, E::bool(true))), b(a), b(E::long(0))) }
                    }
                    1 => E::Neg(b(e)),
                    _ => e,
                };
                let (g, o) = self.term(t, &RType::Long, depth.saturating_sub(1));
                let op = *t.pick(&[BinOp::Lt, BinOp::Le, BinOp::Gt, BinOp::Ge, BinOp::Eq, BinOp::Neq]);
                let cmp = E::Bin(op, b(e), b(o));
                if g.is_empty() {
                    cmp
                } else {
                    conj(g, cmp)
                }
            }
            RType::Str => match t.upto(3) {
                0 => E::Like(b(e), vec![Pat::Char('a'), Pat::Star]),
                1 => E::Bin(BinOp::Eq, b(e), b(E::str(STRS[t.upto(STRS.len())]))),
                _ => E::Like(b(e), vec![Pat::Star, Pat::Char('*'), Pat::Star]),
            },
            RType::Ent(n) => {
                let anc: Vec<String> = self.env.s.ancestor_types(n).into_iter().collect();
                // `e in <access path>`: the right operand is data (an entity or a set of entities reached through attributes)
                if !(matches!(e, E::Lit(_)) && LEVEL_FRIENDLY.with(|c| c.get())) && t.bool_p(1, 5) {
                    let mut targets: Vec<usize> = Vec::new();
                    for (i, p) in self.paths.iter().enumerate() {
                        let ok = match &p.ty {
                            RType::Ent(m) => m == n || anc.contains(m),
                            RType::Set(el) => matches!(&**el, RType::Ent(m) if m == n || anc.contains(m)),
                            _ => false,
                        };
                        if ok {
                            targets.push(i);
                        }
                    }
                    if !targets.is_empty() {
                        let p = self.paths[targets[t.upto(targets.len())]].clone();
                        if !p.guards.is_empty() {
                            self.uses_optional = true;
                        }
                        self.max_derefs = self.max_derefs.max(p.derefs);
                        let mut guards = p.guards.clone();
                        let mut cmp = E::Bin(BinOp::In, b(e.clone()), b(p.e.clone()));
                        if t.coin() {
                            // a second membership test of the same subject, preferably against a path that extends the first
                            // one (`x in r.team || x in r.team.parent`): the requested ancestors of `x` then form a trie with
                            // a requested node that is also an inner node
                            let ext: Vec<usize> = targets.iter().copied().filter(|i| is_proper_prefix(&p.e, &self.paths[*i].e)).collect();
                            if !ext.is_empty() {
                                NESTED_IN_TARGETS.with(|c| c.set(true));
                            }
                            let pool = if ext.is_empty() { &targets } else { &ext };
                            let p2 = self.paths[pool[t.upto(pool.len())]].clone();
                            guards.extend(p2.guards.clone());
                            self.max_derefs = self.max_derefs.max(p2.derefs);
                            let second = E::Bin(BinOp::In, b(e), b(p2.e));
                            cmp = if t.coin() { E::Or(b(cmp), b(second)) } else { E::And(b(second), b(cmp)) };
                        }
                        if !guards.is_empty() {
                            self.uses_optional = true;
                        }
                        return if guards.is_empty() { cmp } else { conj(guards, cmp) };
                    }
                }
                let literal_subject = matches!(e, E::Lit(_)) && LEVEL_FRIENDLY.with(|c| c.get());
                match if literal_subject { 2 * t.upto(2) } else { t.upto(5) } {
                    0 => E::Bin(BinOp::Eq, b(e), b(E::Lit(V::Euid(gen_uid_of(t, self.env.s, n))))),
                    1 if !anc.is_empty() => {
                        let at = &anc[t.upto(anc.len())];
                        E::Bin(BinOp::In, b(e), b(E::Lit(V::Euid(gen_uid_of(t, self.env.s, at)))))
                    }
                    2 => E::Is(b(e), n.clone(), None),
                    3 if !anc.is_empty() => {
                        let at = &anc[t.upto(anc.len())];
                        let k = 1 + t.upto(2);
                        E::Bin(BinOp::In, b(e), b(E::Set((0..k).map(|_| E::Lit(V::Euid(gen_uid_of(t, self.env.s, at)))).collect())))
                    }
                    _ => {
                        // has on a declared attribute
                        let attrs: Vec<String> = self.env.s.et(n).map(|et| et.attrs.keys().cloned().collect()).unwrap_or_default();
                        if attrs.is_empty() {
                            E::Bin(BinOp::In, b(e.clone()), b(e))
                        } else {
                            E::Has(b(e), vec![attrs[t.upto(attrs.len())].clone()])
                        }
                    }
                }
            }
            RType::Set(el) if !is_simple(el) => {
                let _ = el;
                E::IsEmpty(b(e))
            }
            RType::Set(el) => match t.upto(4) {
                0 => E::IsEmpty(b(e)),
                1 => {
                    let x = self.lit_of(t, el);
                    E::Bin(BinOp::Contains, b(e), b(x))
                }
                _ => {
                    let other = self.lit_of(t, ty);
                    E::Bin(if t.coin() { BinOp::ContainsAll } else { BinOp::ContainsAny }, b(e), b(other))
                }
            },
            RType::Rec(attrs) => {
                let ks: Vec<&String> = attrs.keys().collect();
                if ks.is_empty() {
                    E::Bin(BinOp::Eq, b(e.clone()), b(e))
                } else {
                    E::Has(b(e), vec![ks[t.upto(ks.len())].clone()])
                }
            }
            RType::Ext("decimal") => {
                let f = *t.pick(&["lessThan", "lessThanOrEqual", "greaterThan", "greaterThanOrEqual"]);
                E::Call(f.into(), vec![e, E::Call("decimal".into(), vec![E::str(*t.pick(&["0.0", "1.5", "-2.25"]))])])
            }
            RType::Ext("ipaddr") => match t.upto(3) {
                0 => E::Call((*t.pick(&["isIpv4", "isIpv6", "isLoopback", "isMulticast"])).into(), vec![e]),
                _ => E::Call("isInRange".into(), vec![e, E::Call("ip".into(), vec![E::str(*t.pick(&["10.0.0.0/8", "::/0", "0.0.0.0/0"]))])]),
            },
            RType::Ext("datetime") => {
                let e = match t.upto(8) {
                    0 => E::Call("offset".into(), vec![e, E::Call("duration".into(), vec![E::str(*t.pick(&["1d", "-1ms", "9223372036854775807ms", "-106751991167d"]))])]),
                    1 => {
                        let c = E::Call("durationSince".into(), vec![e, E::Call("datetime".into(), vec![E::str(*t.pick(&["2024-01-01", "1970-01-01", "9999-12-31T23:59:59.999Z"]))])]);
                        return E::Bin(*t.pick(&[BinOp::Lt, BinOp::Ge, BinOp::Eq]), b(c), b(E::Call("duration".into(), vec![E::str(*t.pick(&["1d", "0ms", "-1h30m"]))])));
                    }
                    2 => {
                        let f = *t.pick(&["toDate", "toTime"]);
                        let c = E::Call(f.into(), vec![e]);
                        return if f == "toDate" {
                            E::Bin(*t.pick(&[BinOp::Lt, BinOp::Ge, BinOp::Eq]), b(c), b(E::Call("datetime".into(), vec![E::str(*t.pick(&["2024-01-01", "1970-01-01"]))])))
                        } else {
                            E::Bin(*t.pick(&[BinOp::Lt, BinOp::Ge, BinOp::Eq]), b(c), b(E::Call("duration".into(), vec![E::str(*t.pick(&["12h", "0ms", "23h59m59s999ms"]))])))
                        };
                    }
                    _ => e,
                };
                let op = *t.pick(&[BinOp::Lt, BinOp::Le, BinOp::Gt, BinOp::Ge, BinOp::Eq]);
                E::Bin(op, b(e), b(E::Call("datetime".into(), vec![E::str(*t.pick(&["2024-01-01", "1970-01-01"]))])))
            }
            RType::Ext(_) => {
                let op = *t.pick(&[BinOp::Lt, BinOp::Le, BinOp::Gt, BinOp::Ge, BinOp::Eq]);
                E::Bin(op, b(e), b(E::Call("duration".into(), vec![E::str(*t.pick(&["1d", "0ms", "-1h30m"]))])))
            }
        }
    }

    /// a guarded boolean expression; traps (if armed) weaken exactly one guard
    pub fn boolean(&mut self, t: &mut Tape, depth: usize) -> E {
        if depth == 0 {
            let (g, a) = self.atom(t, 0);
            return self.guarded(t, g, a);
        }
        match t.upto(8) {
            0 | 1 => {
                let (g, a) = self.atom(t, depth);
                self.guarded(t, g, a)
            }
            2 | 3 => E::And(b(self.boolean(t, depth - 1)), b(self.boolean(t, depth - 1))),
            4 | 5 => E::Or(b(self.boolean(t, depth - 1)), b(self.boolean(t, depth - 1))),
            6 => E::Not(b(self.boolean(t, depth - 1))),
            _ => E::If(b(self.boolean(t, depth - 1)), b(self.boolean(t, depth - 1)), b(self.boolean(t, depth - 1))),
        }
    }

    fn guarded(&mut self, t: &mut Tape, guards: Vec<E>, atom: E) -> E {
        if guards.is_empty() {
            return atom;
        }
        // traps: realistic mistakes a sound validator must reject (or that are harmless)
        if self.trap_here(t, "drop-guard") {
            return atom;
        }
        // the guard is written for a *sibling* access path of the same type (`p.home has zip && p.work.zip == …`)
        if self.trap.is_some() && self.trap_planted.is_none() {
            let last = guards[guards.len() - 1].clone();
            let (base, rebuild): (Option<E>, Box<dyn Fn(E) -> E>) = match &last {
                E::Has(base, path) => {
                    let path = path.clone();
                    (Some((**base).clone()), Box::new(move |nb| E::Has(b(nb), path.clone())))
                }
                E::Bin(BinOp::HasTag, base, key) => {
                    let key = (**key).clone();
                    (Some((**base).clone()), Box::new(move |nb| E::Bin(BinOp::HasTag, b(nb), b(key.clone()))))
                }
                _ => (None, Box::new(|x| x)),
            };
            if let Some(base) = base {
                let key = format!("{:?}", base);
                if let Some(bp) = self.paths.iter().find(|p| format!("{:?}", p.e) == key).cloned() {
                    let last_len = |e: &E| if let E::GetAttr(_, k) = e { k.len() } else { 0 };
                    let sibs: Vec<Path> = self.paths.iter().filter(|p| p.ty == bp.ty && format!("{:?}", p.e) != key).cloned().collect();
                    // prefer true siblings (same parent expression) whose attribute name is as long as the original's
                    let inner = |e: &E| if let E::GetAttr(i, _) = e { format!("{:?}", i) } else { String::new() };
                    let same_len: Vec<Path> = sibs.iter().filter(|p| last_len(&bp.e) > 0 && last_len(&p.e) == last_len(&bp.e) && inner(&p.e) == inner(&bp.e)).cloned().collect();
                    let kind: &'static str = if same_len.is_empty() { "guard-on-sibling" } else { "guard-on-sibling-of-equal-name-length" };
                    let pool = if same_len.is_empty() { sibs } else { same_len };
                    if !pool.is_empty() && self.trap_here(t, kind) {
                        let sp = pool[t.upto(pool.len())].clone();
                        let mut gs: Vec<E> = guards[..guards.len() - 1].to_vec();
                        gs.extend(sp.guards.clone());
                        gs.push(rebuild(sp.e));
                        return conj(gs, atom);
                    }
                }
            }
        }
        if self.trap_here(t, "or-instead-of-and") {
            let g = conj(guards[..guards.len() - 1].to_vec(), guards[guards.len() - 1].clone());
            return E::Or(b(g), b(atom));
        }
        if self.trap_here(t, "negated-guard") {
            let g = conj(guards[..guards.len() - 1].to_vec(), guards[guards.len() - 1].clone());
            return E::And(b(E::Not(b(g))), b(atom));
        }
        if self.trap_here(t, "guard-in-else") {
            let g = conj(guards[..guards.len() - 1].to_vec(), guards[guards.len() - 1].clone());
            return E::If(b(g), b(E::bool(false)), b(atom));
        }
        if self.trap_here(t, "guard-in-if-condition") {
            // the guard only holds in the `then` branch; the else branch can be true as well
            let g = conj(guards[..guards.len() - 1].to_vec(), guards[guards.len() - 1].clone());
            let then_b = if t.coin() { E::bool(true) } else { self.boolean(t, 0) };
            let else_b = if t.coin() { E::bool(true) } else { self.boolean(t, 0) };
            return E::And(b(E::If(b(g), b(then_b), b(else_b))), b(atom));
        }
        if self.trap_here(t, "guard-under-or") {
            // (guard || other) && use
            let g = conj(guards[..guards.len() - 1].to_vec(), guards[guards.len() - 1].clone());
            let other = self.boolean(t, 0);
            let disj = if t.coin() { E::Or(b(g), b(other)) } else { E::Or(b(other), b(g)) };
            return E::And(b(disj), b(atom));
        }
        if self.trap_here(t, "guard-after-use") {
            let g = conj(guards[..guards.len() - 1].to_vec(), guards[guards.len() - 1].clone());
            return E::And(b(atom), b(g));
        }
        // documented idioms
        match t.upto(4) {
            0 | 1 => conj(guards, atom),
            2 => {
                // guard conjoined with an unrelated condition first: (g && c) && use
                let g = conj(guards[..guards.len() - 1].to_vec(), guards[guards.len() - 1].clone());
                let c = self.boolean(t, 0);
                E::And(b(E::And(b(g), b(c))), b(atom))
            }
            _ => {
                let g = conj(guards[..guards.len() - 1].to_vec(), guards[guards.len() - 1].clone());
                E::If(b(g), b(atom), b(E::bool(t.coin())))
            }
        }
    }
}

pub struct TPolicy {
    pub policy: RPolicy,
    pub trap: Option<&'static str>,
    pub uses_optional: bool,
    pub uses_tags: bool,
    pub max_derefs: usize,
}

/// A policy for one request environment of the schema. With `trap` a single guard mistake is planted.
pub fn gen_policy_for(t: &mut Tape, s: &RSchema, a: &RAction, ptype: &str, rtype: &str, depth: usize, path_budget: usize, trap: bool, slots: u8) -> TPolicy {
    let env = Env { s, principal: ptype.to_string(), action: a, resource: rtype.to_string() };
    let mut g = TGen::new(env, path_budget);
    if trap {
        g.trap = Some(0);
    }
    let nc = 1 + t.weighted(&[5, 2]);
    let mut conds = Vec::new();
    for _ in 0..nc {
        let when = t.bool_p(4, 5);
        conds.push((when, g.boolean(t, depth)));
    }
    // scope: consistent with the environment, so that the policy applies to it
    let scope_of = |t: &mut Tape, ty: &str, slot: bool| -> PrC {
        if slot {
            return match t.upto(3) {
                0 => PrC::Eq(EntRef::Slot),
                1 => PrC::In(EntRef::Slot),
                _ => PrC::IsIn(ty.to_string(), EntRef::Slot),
            };
        }
        let anc: Vec<String> = s.ancestor_types(ty).into_iter().collect();
        match t.weighted(&[4, 2, 2, 2, 1]) {
            0 => PrC::Any,
            1 => PrC::Eq(EntRef::Uid(gen_uid_of(t, s, ty))),
            2 => PrC::Is(ty.to_string()),
            3 if !anc.is_empty() => {
                let k = t.upto(anc.len());
                PrC::In(EntRef::Uid(gen_uid_of(t, s, &anc[k])))
            }
            4 if !anc.is_empty() => {
                let k = t.upto(anc.len());
                PrC::IsIn(ty.to_string(), EntRef::Uid(gen_uid_of(t, s, &anc[k])))
            }
            _ => PrC::Any,
        }
    };
    let principal = scope_of(t, ptype, slots & 1 != 0);
    let resource = scope_of(t, rtype, slots & 2 != 0);
    // `action in g` covers g and every member of g: use only groups (and the action itself as a group)
    // whose only appliable member is this action, otherwise the policy applies to environments its
    // conditions are not typed for
    let exclusive = |g: &Uid| appliable_actions(s).iter().all(|x| x.uid() == a.uid() || !(x.uid() == *g || s.action_ancestors(x).contains(g)));
    let groups: Vec<Uid> = s.action_ancestors(a).into_iter().filter(|g| exclusive(g)).collect();
    let self_exclusive = exclusive(&a.uid());
    let action = match t.weighted(&[2, 4, 2, 2]) {
        0 => ActC::Any,
        1 => ActC::Eq(a.uid()),
        2 if !groups.is_empty() => ActC::In(groups[t.upto(groups.len())].clone()),
        3 if self_exclusive => {
            let mut v = vec![a.uid()];
            // a set literal must be homogeneous in strict mode: only groups of the action's own entity type
            let same: Vec<&Uid> = groups.iter().filter(|g| g.ty == a.ty()).collect();
            if !same.is_empty() && t.coin() {
                v.push(same[t.upto(same.len())].clone());
            }
            ActC::InSet(v)
        }
        _ => ActC::Eq(a.uid()),
    };
    // `action` unconstrained would make the policy apply to every environment; the conditions are typed
    // for this one only, so constrain unless the schema has a single appliable action and types
    let single_env = appliable_actions(s).len() == 1 && a.principals.len() == 1 && a.resources.len() == 1;
    let action = if matches!(action, ActC::Any) && !single_env { ActC::Eq(a.uid()) } else { action };
    let (principal, resource) = if single_env {
        (principal, resource)
    } else {
        // pin the types when several environments exist
        let pin = |c: PrC, ty: &str| match c {
            PrC::Any => PrC::Is(ty.to_string()),
            PrC::In(r) => PrC::IsIn(ty.to_string(), r),
            PrC::Eq(EntRef::Slot) => PrC::IsIn(ty.to_string(), EntRef::Slot),
            x => x,
        };
        (pin(principal, ptype), pin(resource, rtype))
    };
    let permit = t.bool_p(3, 5);
    TPolicy {
        policy: RPolicy { permit, principal, action, resource, conds, annotations: vec![] },
        trap: g.trap_planted,
        uses_optional: g.uses_optional,
        uses_tags: g.uses_tags,
        max_derefs: g.max_derefs,
    }
}

pub fn all_envs(s: &RSchema) -> Vec<(&RAction, String, String)> {
    let mut v = Vec::new();
    for a in appliable_actions(s) {
        for p in &a.principals {
            for r in &a.resources {
                v.push((a, p.clone(), r.clone()));
            }
        }
    }
    v
}

#[allow(dead_code)]
fn _unused(_: BTreeSet<String>) {}
