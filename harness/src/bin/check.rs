use cedar_verif::engine::{self, RunOpts, Tier};

fn usage() -> ! {
    eprintln!("usage: check <ID> [--tier quick|thorough] [--replay FILE] [--sub NAME] [--cases N] [--no-evidence]");
    std::process::exit(2);
}

fn main() {
    let args: Vec<String> = std::env::args().skip(1).collect();
    if args.is_empty() {
        usage();
    }
    let id = args[0].clone();
    let mut tier = match std::env::var("VERIF_TIER").ok().as_deref() {
        Some("thorough") => Tier::Thorough,
        _ => Tier::Quick,
    };
    let mut replay = None;
    let mut only_sub = None;
    let mut cases = None;
    let mut write_evidence = true;
    let mut i = 1;
    while i < args.len() {
        match args[i].as_str() {
            "--tier" => {
                i += 1;
                tier = match args.get(i).map(|s| s.as_str()) {
                    Some("quick") => Tier::Quick,
                    Some("thorough") => Tier::Thorough,
                    _ => usage(),
                };
            }
            "--replay" => {
                i += 1;
                replay = args.get(i).cloned();
            }
            "--sub" => {
                i += 1;
                only_sub = args.get(i).cloned();
            }
            "--cases" => {
                i += 1;
                cases = args.get(i).and_then(|s| s.parse().ok());
            }
            "--no-evidence" => write_evidence = false,
            _ => usage(),
        }
        i += 1;
    }
    let seed: u64 = std::env::var("VERIF_SEED").ok().and_then(|s| s.trim().parse::<i128>().ok()).map(|v| v as u64).unwrap_or(0);
    engine::install_panic_hook();
    let props = cedar_verif::props::all();
    let Some(prop) = props.iter().find(|p| p.id == id) else {
        eprintln!("unknown property {id}");
        std::process::exit(2);
    };
    let code = if let Some(path) = replay {
        // artifacts of the byte-level libFuzzer target carry the text itself
        let text_doc = std::fs::read_to_string(&path).ok().and_then(|s| serde_json::from_str::<serde_json::Value>(&s).ok()).and_then(|d| d["text"].as_str().map(|t| t.to_string()));
        if let Some(text) = text_doc {
            match engine::guarded(|| cedar_verif::props::fuzz_text_oracles(&text)) {
                Ok(None) => {
                    println!("replay passed (no violation on this tree)");
                    0
                }
                Ok(Some((sig, msg))) => {
                    println!("VIOLATION property={} replay={}\n  signature: {sig}\n  {msg}", prop.id, path);
                    1
                }
                Err((loc, msg)) => {
                    println!("VIOLATION property={} replay={}\n  signature: panic:{loc}\n  {msg}", prop.id, path);
                    1
                }
            }
        } else {
            engine::replay(prop, &path)
        }
    } else {
        if only_sub.is_some() || cases.is_some() {
            write_evidence = false;
        }
        let extra = cedar_verif::props::extra(prop.id, tier, seed);
        engine::run_property(prop, &RunOpts { tier, seed, only_sub, cases, write_evidence }, extra)
    };
    std::process::exit(code);
}
