//! Development aid: parse an expression / policy, print it with the AST printer, re-parse.
use cedar_policy_core::ast;
use std::str::FromStr;
fn main() {
    let args: Vec<String> = std::env::args().skip(1).collect();
    match args.first().map(|s| s.as_str()) {
        Some("expr") => {
            let e = ast::Expr::from_str(&args[1]).expect("parse");
            println!("debug: {:?}", e.expr_kind());
            let s = e.to_string();
            println!("printed: {s}");
            let e2 = ast::Expr::from_str(&s).expect("reparse");
            println!("eq_shape: {}", e.eq_shape(&e2));
        }
        Some("manifest") => {
            use cedar_policy::{PolicySet, Schema, Validator};
            let schema = Schema::from_cedarschema_str(&std::fs::read_to_string(&args[1]).unwrap()).unwrap().0;
            let ps = PolicySet::from_str(&std::fs::read_to_string(&args[2]).unwrap()).unwrap();
            let v = Validator::new(schema);
            #[allow(deprecated)]
            let m = cedar_policy::compute_entity_manifest(&v, &ps);
            match m {
                Ok(m) => println!("{}", serde_json::to_string_pretty(&m).unwrap()),
                Err(e) => println!("error: {e}"),
            }
        }
        _ => eprintln!("usage: probe expr <text> | manifest <schema> <policies>"),
    }
}
