//! Development aid: parse an expression / policy, print it with the AST printer, re-parse.
use cedar_policy_core::ast;
use std::str::FromStr;
fn main() {
    let args: Vec<String> = std::env::args().skip(1).collect();
    match args.first().map(|s| s.as_str()) {
        Some("expr") => {
            let e = ast::Expr::from_str(&args[1]).expect("parse");
            println!("debug: {:?}", e.expr_kind());
            let s = e.to_string();
            println!("printed: {s}");
            let e2 = ast::Expr::from_str(&s).expect("reparse");
            println!("eq_shape: {}", e.eq_shape(&e2));
        }
        Some("manifest") => {
            use cedar_policy::{PolicySet, Schema, Validator};
            let schema = Schema::from_cedarschema_str(&std::fs::read_to_string(&args[1]).unwrap()).unwrap().0;
            let ps = PolicySet::from_str(&std::fs::read_to_string(&args[2]).unwrap()).unwrap();
            let v = Validator::new(schema);
            #[allow(deprecated)]
            let m = cedar_policy::compute_entity_manifest(&v, &ps);
            match m {
                Ok(m) => println!("{}", serde_json::to_string_pretty(&m).unwrap()),
                Err(e) => println!("error: {e}"),
            }
        }
        Some("est") => {
            let j: serde_json::Value = serde_json::from_str(&args[1]).expect("json");
            match cedar_policy::Policy::from_json(None, j.clone()) {
                Ok(p) => {
                    println!("api: from_json ok; to_cedar = {:?}", p.to_cedar());
                    println!("api display: {p}");
                }
                Err(e) => println!("api error: {:?}", miette::Report::new(e)),
            }
            let e: Result<cedar_policy_core::est::Policy, _> = serde_json::from_value(j.clone());
            match e {
                Ok(p) => {
                    println!("est parsed");
                    println!("display: {p}");
                }
                Err(e) => println!("est parse error: {e}"),
            }
        }
        Some("solver") => {
            use cedar_policy::{Policy, Schema};
            use cedar_policy_symcc::{solver::LocalSolver, CedarSymCompiler, CompiledPolicy};
            let schema = Schema::from_cedarschema_str(r#"entity U { n: Long, m?: U }; entity R; action a appliesTo { principal: U, resource: R, context: { x: Long } };"#).unwrap().0;
            let rt = tokio::runtime::Builder::new_current_thread().enable_all().build().unwrap();
            rt.block_on(async {
                let solver = LocalSolver::cvc5().expect("spawn cvc5");
                let mut sc = CedarSymCompiler::new(solver).unwrap();
                for env in schema.request_envs() {
                    for src in [r#"permit(principal, action, resource) when { principal.n + context.x > 3 };"#, r#"permit(principal, action, resource) when { principal.n > 3 || context.x < 2 };"#, r#"permit(principal, action, resource) when { principal has m && principal.m.n == 1 };"#] {
                        let p = Policy::from_str(src).unwrap();
                        let cp = CompiledPolicy::compile(&p, &env, &schema).unwrap();
                        let t0 = std::time::Instant::now();
                        let r = sc.check_never_errors_with_counterexample_opt(&cp).await;
                        println!("{src}\n  never_errors cex: {:?} ({:?})", r.map(|o| o.map(|e| e.to_string())), t0.elapsed());
                        let r = sc.check_always_matches_with_counterexample_opt(&cp).await;
                        println!("  always_matches cex: {:?}", r.map(|o| o.map(|e| e.to_string())));
                    }
                }
            });
        }
        _ => eprintln!("usage: probe expr <text> | manifest <schema> <policies>"),
    }
}
