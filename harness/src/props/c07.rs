//! C07 — extension types (decimal, ip, datetime, duration) compute exact results.

use crate::bridge::{self, Got};
use crate::emit::text;
use crate::engine::{Property, Rec, SubCheck};
use crate::refmodel::{self as rm, b, ext, BinOp, E, V};
use crate::tape::Tape;
use cedar_policy::{Entities, Request};
use cedar_policy_core::ast;
use std::str::FromStr;
use std::sync::OnceLock;

fn env() -> &'static (Request, Entities) {
    static E0: OnceLock<(Request, Entities)> = OnceLock::new();
    E0.get_or_init(|| {
        let w = rm::World::default();
        let r = rm::Req { principal: rm::Uid::new("A", "a"), action: rm::Uid::new("Action", "a"), resource: rm::Uid::new("A", "b"), context: Default::default() };
        (bridge::request(&r).unwrap(), bridge::entities(&w).unwrap())
    })
}

fn ref_eval(e: &E) -> rm::R {
    let w = rm::World::default();
    let r = rm::Req { principal: rm::Uid::new("A", "a"), action: rm::Uid::new("Action", "a"), resource: rm::Uid::new("A", "b"), context: Default::default() };
    rm::eval(e, &rm::Ctx { req: &r, world: &w })
}

/// evaluate through text -> parser -> evaluator
fn cedar_eval(e: &E) -> Result<Got, String> {
    let txt = text::expr(e, &mut text::Style::canonical());
    let parsed = ast::Expr::from_str(&txt).map_err(|er| format!("parser rejected `{txt}`: {er}"))?;
    let (req, ents) = env();
    Ok(bridge::interpret(&parsed, req, ents))
}

fn call(f: &str, args: Vec<E>) -> E {
    E::Call(f.to_string(), args)
}

// ---------------------------------------------------------------------------------------------
// string grammars

fn digits(t: &mut Tape, min: usize, max: usize) -> String {
    let n = min + t.upto(max - min + 1);
    (0..n).map(|_| char::from(b'0' + t.upto(10) as u8)).collect()
}

fn mutate(t: &mut Tape, s: &str, alphabet: &[char]) -> String {
    let mut cs: Vec<char> = s.chars().collect();
    let k = 1 + t.weighted(&[5, 1]);
    for _ in 0..k {
        let c = alphabet[t.upto(alphabet.len())];
        match t.upto(3) {
            0 => {
                let i = t.upto(cs.len() + 1);
                cs.insert(i, c);
            }
            1 if !cs.is_empty() => {
                let i = t.upto(cs.len());
                cs.remove(i);
            }
            _ if !cs.is_empty() => {
                let i = t.upto(cs.len());
                cs[i] = c;
            }
            _ => cs.push(c),
        }
    }
    cs.into_iter().collect()
}

const DEC_BOUNDARY: [&str; 22] = [
    "922337203685477.5807", "922337203685477.5808", "-922337203685477.5808", "-922337203685477.5809", "922337203685478.0", "-922337203685478.0", "0.0", "-0.0", "-0.5", "0.5", "1.2345", "1.23456", "1.00000",
    "00.1", "0000000000000000000001.0", "1.", ".1", "1", "+1.0", "1.0e1", "99999999999999999999.0", "1.-1",
];

fn gen_decimal_str(t: &mut Tape) -> (String, &'static str) {
    match t.weighted(&[4, 3, 3]) {
        0 => {
            let neg = if t.bool_p(1, 3) { "-" } else { "" };
            (format!("{neg}{}.{}", digits(t, 1, 15), digits(t, 1, 4)), "valid")
        }
        1 => (DEC_BOUNDARY[t.upto(DEC_BOUNDARY.len())].to_string(), "boundary"),
        _ => {
            let base = if t.coin() { format!("{}.{}", digits(t, 1, 6), digits(t, 1, 4)) } else { DEC_BOUNDARY[t.upto(DEC_BOUNDARY.len())].to_string() };
            (mutate(t, &base, &['0', '1', '9', '.', '-', '+', ' ', 'e', '_', '\u{0663}', '5']), "near-miss")
        }
    }
}

const IP_BOUNDARY: [&str; 37] = [
    "::ffff:a00:1", "0::FFFF:0:0/0", "::a00:1/120", "0.0.0.0/0", "255.255.255.255/32", "1.2.3.4/33", "1.2.3.4/032", "1.2.3.4/00", "1.2.3.4/0", "1.2.3.4/", "01.2.3.4", "1.2.3.256", "1.2.3", "1.2.3.4.5", "::", "::/0", "::/128", "::/129", "::1/0128", "::ffff:1.2.3.4", "::1.2.3.4",
    "1:2:3:4:5:6:7:8", "1:2:3:4:5:6:7::", "::2:3:4:5:6:7:8", "1:2:3:4:5:6:7:8::", "1::8", "1:::8", "12345::", "g::", "ABCD:EF01:2345:6789:ABCD:EF01:2345:6789/128", "ABCD:EF01:2345:6789:ABCD:EF01:2345:6789/0128", "fe80::1%eth0",
    "127.0.0.1", "127.0.0.0/8", "127.0.0.0/7", "224.0.0.0/4", "ff00::/8",
];

fn gen_ip_str(t: &mut Tape) -> (String, &'static str) {
    let v4 = |t: &mut Tape| format!("{}.{}.{}.{}", t.upto(256), t.upto(256), t.upto(256), t.upto(256));
    let v6 = |t: &mut Tape| {
        let g = |t: &mut Tape| {
            let v = match t.upto(3) {
                0 => 0,
                1 => t.upto(16) as u32,
                _ => t.upto(65536) as u32,
            };
            if t.coin() {
                format!("{v:x}")
            } else {
                format!("{v:X}")
            }
        };
        if t.coin() {
            (0..8).map(|_| g(t)).collect::<Vec<_>>().join(":")
        } else {
            let h = t.upto(8);
            let tl = t.upto(8 - h);
            format!("{}::{}", (0..h).map(|_| g(t)).collect::<Vec<_>>().join(":"), (0..tl).map(|_| g(t)).collect::<Vec<_>>().join(":"))
        }
    };
    match t.weighted(&[4, 3, 3]) {
        0 => {
            let (a, max) = if t.coin() { (v4(t), 32) } else { (v6(t), 128) };
            if t.coin() {
                (a, "valid")
            } else {
                (format!("{a}/{}", t.upto(max + 1)), "valid")
            }
        }
        1 => (IP_BOUNDARY[t.upto(IP_BOUNDARY.len())].to_string(), "boundary"),
        _ => {
            let base = match t.upto(3) {
                0 => format!("{}/{}", v4(t), t.upto(33)),
                1 => format!("{}/{}", v6(t), t.upto(129)),
                _ => IP_BOUNDARY[t.upto(IP_BOUNDARY.len())].to_string(),
            };
            (mutate(t, &base, &['0', '1', '9', 'a', 'F', 'g', ':', '.', '/', '%', ' ', '2', '5']), "near-miss")
        }
    }
}

const DT_BOUNDARY: [&str; 34] = [
    "0000-01-01", "9999-12-31", "9999-12-31T23:59:59.999Z", "0000-01-01T00:00:00.000+2359", "9999-12-31T23:59:59.999-2359", "1900-02-29", "2000-02-29", "2024-02-29", "2023-02-29", "2024-02-30", "2024-04-31", "2024-00-10", "2024-13-01", "2024-01-00", "2024-01-32",
    "2024-01-01T24:00:00Z", "2024-01-01T23:60:00Z", "2024-01-01T23:59:60Z", "2024-01-01T23:59:59.999-2359", "2024-01-01T00:00:00+2400", "2024-01-01T00:00:00+0060", "2024-01-01T00:00:00-0000", "2024-01-01T00:00:00", "2024-01-01T00:00:00.00Z",
    "2024-01-01T00:00:00.0000Z", "2024-01-01 00:00:00Z", "2024-1-1", "1969-12-31T23:59:59.999Z", "1970-01-01T00:00:00.001Z", "1970-01-01T00:00:00+0001", "2024-01-01T00:00Z", "2024-01-01Z", "2024-01-01T00:00:00z", "10000-01-01",
];

fn gen_datetime_str(t: &mut Tape) -> (String, &'static str) {
    let valid = |t: &mut Tape| {
        let y = match t.upto(4) {
            0 => t.upto(10000),
            1 => 1960 + t.upto(100),
            2 => *t.pick(&[0usize, 1, 1900, 2000, 2024, 9999, 1970, 1969, 400]),
            _ => t.upto(10000),
        } as i64;
        let m = 1 + t.upto(12) as i64;
        let dim = ext::days_in_month(y, m);
        let d = if t.bool_p(1, 4) { dim } else { 1 + t.upto(dim as usize) as i64 };
        let mut s = format!("{y:04}-{m:02}-{d:02}");
        if t.bool_p(2, 3) {
            s.push_str(&format!("T{:02}:{:02}:{:02}", t.upto(24), t.upto(60), t.upto(60)));
            if t.coin() {
                s.push_str(&format!(".{:03}", t.upto(1000)));
            }
            if t.coin() {
                s.push('Z');
            } else {
                s.push_str(&format!("{}{:02}{:02}", if t.coin() { '+' } else { '-' }, t.upto(24), t.upto(60)));
            }
        }
        s
    };
    match t.weighted(&[4, 3, 3]) {
        0 => (valid(t), "valid"),
        1 => (DT_BOUNDARY[t.upto(DT_BOUNDARY.len())].to_string(), "boundary"),
        _ => {
            let base = if t.coin() { valid(t) } else { DT_BOUNDARY[t.upto(DT_BOUNDARY.len())].to_string() };
            (mutate(t, &base, &['0', '1', '9', '-', ':', 'T', 'Z', '.', '+', ' ', '2', '6', 'z']), "near-miss")
        }
    }
}

const DUR_BOUNDARY: [&str; 30] = [
    "9223372036854775807ms", "9223372036854775808ms", "-9223372036854775808ms", "-9223372036854775809ms", "9223372036854775s807ms", "9223372036854775s808ms", "106751991167d7h12m55s807ms", "106751991167d7h12m55s808ms", "-106751991167d7h12m55s808ms",
    "-106751991167d7h12m55s809ms", "106751991168d", "18446744073709551615ms", "18446744073709551616ms", "", "-", "0ms", "-0ms", "00001ms", "1d1d", "1h1d", "1ms1s", "1m1ms", "1ms", "1m", "1s1ms", "d", "1", "1 d", "+1d", "1D",
];

fn gen_duration_str(t: &mut Tape) -> (String, &'static str) {
    let valid = |t: &mut Tape| {
        let mut s = String::new();
        if t.bool_p(1, 3) {
            s.push('-');
        }
        let units = ["d", "h", "m", "s", "ms"];
        let mut any = false;
        for (i, u) in units.iter().enumerate() {
            if t.bool_p(2, 5) || (!any && i == 4) {
                any = true;
                let n = match t.upto(3) {
                    0 => t.upto(100) as u64,
                    1 => t.upto(1_000_000) as u64,
                    _ => (t.next() as u64) << t.upto(20),
                };
                s.push_str(&format!("{n}{u}"));
            }
        }
        s
    };
    match t.weighted(&[4, 3, 3]) {
        0 => (valid(t), "valid"),
        1 => (DUR_BOUNDARY[t.upto(DUR_BOUNDARY.len())].to_string(), "boundary"),
        _ => {
            let base = if t.coin() { valid(t) } else { DUR_BOUNDARY[t.upto(DUR_BOUNDARY.len())].to_string() };
            (mutate(t, &base, &['0', '1', '9', 'd', 'h', 'm', 's', '-', ' ', '.', 'D', '8']), "near-miss")
        }
    }
}

// ---------------------------------------------------------------------------------------------

fn construct(t: &mut Tape, rec: &mut Rec<'_>) {
    let ty = t.upto(4);
    let (f, (s, band)) = match ty {
        0 => ("decimal", gen_decimal_str(t)),
        1 => ("ip", gen_ip_str(t)),
        2 => ("datetime", gen_datetime_str(t)),
        _ => ("duration", gen_duration_str(t)),
    };
    let e = call(f, vec![E::str(&s)]);
    let want = ref_eval(&e);
    rec.label(format!("{f}:{band}:{}", if want.is_ok() { "accept" } else { "reject" }));
    rec.nontrivial = band != "valid";
    rec.set_key(&(f, s.clone()));
    rec.render(|| format!("{f}({s:?})  reference: {want:?}"));
    let got = match cedar_eval(&e) {
        Ok(g) => g,
        Err(er) => {
            rec.fail("generated-text-rejected", er);
            return;
        }
    };
    if let Err(msg) = bridge::agree(&got, &want) {
        let kind = match (&got, &want) {
            (Got::Val(_), Ok(_)) => "wrong-value",
            (Got::Val(_), Err(_)) => "accepted-invalid",
            (Got::Err(_), Ok(_)) => "rejected-valid",
            _ => "wrong-error-class",
        };
        rec.fail(format!("{f}:{kind}"), format!("{f}({s:?})\n{msg}"));
        return;
    }
    // independent observers (do not go through the canonical printer)
    if let Ok(v) = &want {
        let checks: Vec<(E, V)> = match v {
            V::Decimal(d) => {
                let canon = call("decimal", vec![E::str(&ext::decimal_canonical(*d))]);
                let mut c = vec![
                    (call("lessThan", vec![e.clone(), canon.clone()]), V::Bool(false)),
                    (call("greaterThan", vec![e.clone(), canon.clone()]), V::Bool(false)),
                    (E::Bin(BinOp::Eq, b(e.clone()), b(canon)), V::Bool(true)),
                ];
                if *d < i64::MAX {
                    c.push((call("lessThan", vec![e.clone(), call("decimal", vec![E::str(&ext::decimal_canonical(*d + 1))])]), V::Bool(true)));
                }
                if *d > i64::MIN {
                    c.push((call("greaterThan", vec![e.clone(), call("decimal", vec![E::str(&ext::decimal_canonical(*d - 1))])]), V::Bool(true)));
                }
                c
            }
            V::Ip(ip) => {
                let single = ext::Ip { prefix: if ip.v6 { 128 } else { 32 }, ..*ip };
                vec![
                    (call("isIpv4", vec![e.clone()]), V::Bool(!ip.v6)),
                    (call("isIpv6", vec![e.clone()]), V::Bool(ip.v6)),
                    (call("isInRange", vec![call("ip", vec![E::str(&single.spelling())]), e.clone()]), V::Bool(true)),
                    (call("isInRange", vec![e.clone(), call("ip", vec![E::str(&single.spelling())])]), V::Bool(ip.prefix == single.prefix)),
                    (call("isLoopback", vec![e.clone()]), V::Bool(ip.is_loopback())),
                    (call("isMulticast", vec![e.clone()]), V::Bool(ip.is_multicast())),
                ]
            }
            V::Datetime(ms) => vec![
                (call("toMilliseconds", vec![call("durationSince", vec![e.clone(), call("datetime", vec![E::str("1970-01-01")])])]), V::Long(*ms)),
                (E::Bin(BinOp::Le, b(e.clone()), b(call("datetime", vec![E::str("9999-12-31T23:59:59.999-2359")]))), V::Bool(true)),
            ],
            V::Duration(ms) => vec![(call("toMilliseconds", vec![e.clone()]), V::Long(*ms))],
            _ => vec![],
        };
        for (obs, expect) in checks {
            match cedar_eval(&obs) {
                Ok(Got::Val(v)) if v == expect => {}
                other => {
                    rec.fail(format!("{f}:observer"), format!("{} evaluates to {other:?}, expected {expect:?}", text::expr(&obs, &mut text::Style::canonical())));
                    return;
                }
            }
        }
    }
}

// ---------------------------------------------------------------------------------------------

fn edgy_ms(t: &mut Tape) -> i64 {
    match t.upto(5) {
        0 => t.range(-200_000_000, 200_000_000),
        1 => *t.pick(&[0i64, 1, -1, 86_399_999, 86_400_000, 86_400_001, -86_399_999, -86_400_000, -86_400_001, i64::MAX, i64::MIN, i64::MAX - 1, i64::MIN + 1, 999, 1000, -999, -1000, 59_999, 60_000, 3_599_999, 3_600_000]),
        2 => t.range(-4_000_000_000_000, 4_000_000_000_000),
        3 => {
            let k = t.range(-106_751_991_167, 106_751_991_167);
            k.saturating_mul(86_400_000).saturating_add(t.range(-2, 2))
        }
        _ => t.i64_edgy(),
    }
}

fn gen_ip_val(t: &mut Tape) -> ext::Ip {
    if t.coin() {
        let addr = match t.upto(4) {
            0 => *t.pick(&[0x7f000001u32, 0x7f000000, 0x7effffff, 0x80000000, 0xe0000000, 0xefffffff, 0xdfffffff, 0xf0000000, 0, u32::MAX, 0x0a000000, 0x0a0000ff]),
            _ => t.next(),
        } as u128;
        ext::Ip { v6: false, addr, prefix: *t.pick(&[32u8, 32, 31, 24, 16, 9, 8, 7, 5, 4, 3, 1, 0]) }
    } else {
        let addr = match t.upto(4) {
            0 => *t.pick(&[0u128, 1, 2, u128::MAX, 0xffu128 << 120, 0xfeu128 << 120, (0xffu128 << 120) | 1, 0xffff_7f00_0001, 1u128 << 127]),
            1 => t.next() as u128,
            _ => ((t.next() as u128) << 96) | ((t.next() as u128) << 64) | ((t.next() as u128) << 32) | t.next() as u128,
        };
        ext::Ip { v6: true, addr, prefix: *t.pick(&[128u8, 128, 127, 120, 64, 9, 8, 7, 1, 0]) }
    }
}

fn ops(t: &mut Tape, rec: &mut Rec<'_>) {
    let lit = |v: V| text::value_expr(&v);
    let (e, near): (E, bool) = match t.upto(12) {
        0 => {
            let (a, d) = (edgy_ms(t), edgy_ms(t));
            let near = (a as i128 + d as i128).abs() > (i64::MAX as i128) - 1024;
            (call("offset", vec![lit(V::Datetime(a)), lit(V::Duration(d))]), near)
        }
        1 => {
            let (a, c) = (edgy_ms(t), edgy_ms(t));
            let near = (a as i128 - c as i128).abs() > (i64::MAX as i128) - 1024;
            (call("durationSince", vec![lit(V::Datetime(a)), lit(V::Datetime(c))]), near)
        }
        2 => {
            let a = edgy_ms(t);
            (call("toDate", vec![lit(V::Datetime(a))]), a < 0)
        }
        3 => {
            let a = edgy_ms(t);
            (call("toTime", vec![lit(V::Datetime(a))]), a < 0)
        }
        4 => {
            let f = *t.pick(&["toMilliseconds", "toSeconds", "toMinutes", "toHours", "toDays"]);
            let a = edgy_ms(t);
            (call(f, vec![lit(V::Duration(a))]), a < 0)
        }
        5 => {
            let op = *t.pick(&[BinOp::Lt, BinOp::Le, BinOp::Gt, BinOp::Ge, BinOp::Eq, BinOp::Neq]);
            let a = edgy_ms(t);
            let c = if t.bool_p(1, 3) { a } else { edgy_ms(t) };
            let mk = if t.coin() { V::Datetime } else { V::Duration };
            (E::Bin(op, b(lit(mk(a))), b(lit(mk(c)))), a == c)
        }
        6 => {
            let f = *t.pick(&["lessThan", "lessThanOrEqual", "greaterThan", "greaterThanOrEqual"]);
            let a = t.i64_edgy();
            let c = match t.upto(3) {
                0 => a,
                1 => a.wrapping_add(1),
                _ => t.i64_edgy(),
            };
            (call(f, vec![lit(V::Decimal(a)), lit(V::Decimal(c))]), true)
        }
        7 | 8 => {
            let a = gen_ip_val(t);
            let mut c = gen_ip_val(t);
            if t.bool_p(1, 2) {
                // a related range: same family, address sharing a prefix
                c = ext::Ip { v6: a.v6, addr: a.addr ^ (t.next() as u128 & 0xff), prefix: c.prefix.min(if a.v6 { 128 } else { 32 }) };
                if !a.v6 {
                    c.addr &= 0xffff_ffff;
                }
            }
            (call("isInRange", vec![lit(V::Ip(a)), lit(V::Ip(c))]), a.v6 == c.v6)
        }
        9 => {
            let f = *t.pick(&["isLoopback", "isMulticast", "isIpv4", "isIpv6"]);
            (call(f, vec![lit(V::Ip(gen_ip_val(t)))]), true)
        }
        10 => {
            // equality by value, not by spelling
            let a = gen_ip_val(t);
            let c = if t.coin() { a } else { gen_ip_val(t) };
            (E::Bin(BinOp::Eq, b(lit(V::Ip(a))), b(lit(V::Ip(c)))), a == c)
        }
        _ => {
            // chained: (dt.offset(d)).toDate() / durationSince of toDate
            let (a, d) = (edgy_ms(t), edgy_ms(t));
            (call("toTime", vec![call("offset", vec![lit(V::Datetime(a)), lit(V::Duration(d))])]), true)
        }
    };
    let want = ref_eval(&e);
    let txt = text::expr(&e, &mut text::Style::canonical());
    rec.label(format!("{}:{}", crate::props::c02::op_name(&e), if want.is_ok() { "ok" } else { "err" }));
    if let E::Call(f, _) = &e {
        rec.label(format!("{f}:{}", if want.is_ok() { "ok" } else { "err" }));
    }
    rec.nontrivial = near;
    rec.set_key(&txt);
    rec.render(|| format!("{txt}\nreference: {want:?}"));
    match cedar_eval(&e) {
        Ok(got) => {
            if let Err(msg) = bridge::agree(&got, &want) {
                let f = if let E::Call(f, _) = &e { f.clone() } else { "compare".to_string() };
                rec.fail(format!("op:{f}"), format!("{txt}\n{msg}"));
            }
        }
        Err(er) => {
            rec.fail("generated-text-rejected", er);
        }
    }
}

// ---------------------------------------------------------------------------------------------
// equality by represented value: two spellings of the same value are `==`, different values are not

fn spell_decimal(t: &mut Tape, v: i64) -> String {
    let a = (v as i128).unsigned_abs();
    let (int, frac) = (a / 10_000, a % 10_000);
    let mut fs = format!("{frac:04}");
    while fs.len() > 1 && fs.ends_with('0') && t.coin() {
        fs.pop();
    }
    let zeros = "0".repeat(t.weighted(&[4, 1, 1]));
    format!("{}{zeros}{int}.{fs}", if v < 0 { "-" } else { "" })
}

fn spell_ip(t: &mut Tape, ip: &ext::Ip) -> String {
    let full = ip.prefix == if ip.v6 { 128 } else { 32 };
    let base = if ip.v6 {
        let gs: Vec<u16> = (0..8).map(|i| ((ip.addr >> (112 - 16 * i)) & 0xffff) as u16).collect();
        // optionally compress the first run of zeros
        let mut s = None;
        if t.coin() {
            if let Some(start) = gs.iter().position(|g| *g == 0) {
                let len = gs[start..].iter().take_while(|g| **g == 0).count();
                let use_len = 1 + t.upto(len);
                let h: Vec<String> = gs[..start].iter().map(|g| format!("{g:x}")).collect();
                let tl: Vec<String> = gs[start + use_len..].iter().map(|g| format!("{g:x}")).collect();
                s = Some(format!("{}::{}", h.join(":"), tl.join(":")));
            }
        }
        s.unwrap_or_else(|| gs.iter().map(|g| if t.coin() { format!("{g:x}") } else { format!("{g:04X}") }).collect::<Vec<_>>().join(":"))
    } else {
        let a = ip.addr as u32;
        format!("{}.{}.{}.{}", a >> 24, (a >> 16) & 255, (a >> 8) & 255, a & 255)
    };
    if full && t.coin() {
        base
    } else {
        format!("{base}/{}", ip.prefix)
    }
}

fn spell_datetime(t: &mut Tape, ms: i64) -> Option<String> {
    // choose an offset, then render the local time
    let off_min: i64 = if t.coin() { 0 } else { t.range(-(23 * 60 + 59), 23 * 60 + 59) };
    let local = ms as i128 + off_min as i128 * 60_000;
    let day = local.div_euclid(ext::MS_PER_DAY) as i64;
    let tod = local.rem_euclid(ext::MS_PER_DAY) as i64;
    let (y, m, d) = ext::civil_from_days(day);
    if !(0..=9999).contains(&y) {
        return None;
    }
    let (h, mi, s, milli) = (tod / 3_600_000, tod / 60_000 % 60, tod / 1000 % 60, tod % 1000);
    if tod == 0 && off_min == 0 && t.coin() {
        return Some(format!("{y:04}-{m:02}-{d:02}"));
    }
    let ms_part = if milli != 0 || t.coin() { format!(".{milli:03}") } else { String::new() };
    let off = if off_min == 0 && t.coin() { "Z".to_string() } else { format!("{}{:02}{:02}", if off_min < 0 { '-' } else { '+' }, off_min.abs() / 60, off_min.abs() % 60) };
    Some(format!("{y:04}-{m:02}-{d:02}T{h:02}:{mi:02}:{s:02}{ms_part}{off}"))
}

fn spell_duration(t: &mut Tape, ms: i64) -> String {
    let neg = ms < 0;
    let mut rest = (ms as i128).unsigned_abs();
    let mut s = String::new();
    if neg {
        s.push('-');
    }
    let units: [(&str, u128); 4] = [("d", 86_400_000), ("h", 3_600_000), ("m", 60_000), ("s", 1000)];
    let mut any = false;
    for (u, size) in units {
        if t.coin() {
            // take an arbitrary number of whole units (not necessarily the maximum)
            let maxq = rest / size;
            let q = if t.coin() { maxq } else { maxq.min(t.upto(100) as u128) };
            if q > 0 || t.bool_p(1, 6) {
                s.push_str(&format!("{q}{u}"));
                rest -= q * size;
                any = true;
            }
        }
    }
    if rest > 0 || !any {
        s.push_str(&format!("{rest}ms"));
    }
    s
}

fn equality(t: &mut Tape, rec: &mut Rec<'_>) {
    let ty = t.upto(4);
    let same = t.coin();
    let (f, s1, s2, equal): (&str, String, String, bool) = match ty {
        0 => {
            let a = match t.upto(3) {
                0 => t.range(-100_000, 100_000),
                1 => t.range(-100, 100) * 10_000 / *t.pick(&[1i64, 10, 100, 1000]),
                _ => t.i64_edgy(),
            };
            let c = if same { a } else { a.wrapping_add(*t.pick(&[1i64, -1, 10_000, 9999])) };
            ("decimal", spell_decimal(t, a), spell_decimal(t, c), a == c)
        }
        1 => {
            let a = gen_ip_val(t);
            let mut c = a;
            if !same {
                match t.upto(3) {
                    0 => c.prefix = if c.prefix > 0 { c.prefix - 1 } else { 1 },
                    1 => c.addr ^= 1,
                    _ => c = gen_ip_val(t),
                }
            }
            ("ip", spell_ip(t, &a), spell_ip(t, &c), a == c)
        }
        2 => {
            let a = match t.upto(3) {
                0 => t.range(-62_167_219_200_000 + 90_000_000, 253_402_300_799_999 - 90_000_000),
                1 => t.range(-100_000_000, 100_000_000),
                _ => t.range(0, 4_000_000_000) * 1000,
            };
            let c = if same { a } else { a + *t.pick(&[1i64, -1, 1000, 60_000, 3_600_000, 86_400_000]) };
            match (spell_datetime(t, a), spell_datetime(t, c)) {
                (Some(x), Some(y)) => ("datetime", x, y, a == c),
                _ => {
                    rec.discard("datetime-out-of-range");
                    return;
                }
            }
        }
        _ => {
            let a = edgy_ms(t);
            let c = if same { a } else { a.wrapping_add(*t.pick(&[1i64, -1, 1000, 86_400_000])) };
            ("duration", spell_duration(t, a), spell_duration(t, c), a == c)
        }
    };
    let e = E::Bin(BinOp::Eq, b(call(f, vec![E::str(&s1)])), b(call(f, vec![E::str(&s2)])));
    let want = ref_eval(&e);
    // the spellings are produced by the harness: they must denote the intended values in the reference
    if want != Ok(V::Bool(equal)) {
        rec.fail("harness-spelling", format!("harness bug: {f}({s1:?}) == {f}({s2:?}) intended {equal}, reference says {want:?}"));
        return;
    }
    rec.label(format!("{f}:{}", if equal { "equal" } else { "unequal" }));
    rec.label_if(s1 != s2 && equal, "equal-different-spelling");
    rec.nontrivial = s1 != s2 && equal;
    rec.set_key(&(f, s1.clone(), s2.clone()));
    rec.render(|| format!("{f}({s1:?}) == {f}({s2:?})  expected {equal}"));
    match cedar_eval(&e) {
        Ok(Got::Val(V::Bool(g))) if g == equal => {}
        Ok(other) => {
            rec.fail(format!("{f}:equality"), format!("{f}({s1:?}) == {f}({s2:?}) evaluates to {other:?}; the represented values are {}", if equal { "equal" } else { "different" }));
        }
        Err(er) => {
            rec.fail("generated-text-rejected", er);
        }
    }
}

pub fn property() -> Property {
    Property {
        id: "C07",
        rule: "construct: constructor strings for decimal/ip/datetime/duration from three bands — valid (uniform over structure), boundary (range limits, 4 vs 5 fraction digits, /0 /32 /33 /128 /129, leading zeros, \
               IPv4-in-IPv6, leap days, 24:00:00, :60, offsets +-2359/2400/0060, empty/mis-ordered/repeated units, i64 limits) and near-miss (1-2 character edits of a valid or boundary string); oracle = own parsers with i128 arithmetic: \
               accept<=>accept, value equal (read through cedar's canonical form AND through independent observers: lessThan/greaterThan against neighbours, isIpv4/6 + isInRange against the /32 or /128 singleton, \
               durationSince(epoch).toMilliseconds, toMilliseconds), rejection is an extension error. ops: offset, durationSince, toDate, toTime, toMilliseconds..toDays, < <= > >= == != on datetime/duration, decimal comparisons, \
               isInRange/isLoopback/isMulticast on generated values incl. i64 extremes, negative epochs, all prefix lengths; exact result or {extension, overflow} error when not representable. equality: the same value in two spellings is ==, neighbours are !=. \
               Non-trivial = boundary/near-miss band (construct), result within 2^10 of an i64 bound or negative epoch (ops), equal values spelled differently (equality).",
        assumptions: &["refmodel::ext parsers and arithmetic (unit-tested against documented examples)"],
        subs: vec![
            SubCheck { name: "construct", cases: (300_000, 6_000_000), tape_len: 120, run: construct, min_labels: &[("decimal:boundary:accept", 1000), ("decimal:near-miss:reject", 1000), ("ip:near-miss:accept", 500), ("ip:boundary:reject", 1000), ("datetime:near-miss:accept", 300), ("datetime:boundary:reject", 1000), ("duration:near-miss:accept", 500), ("duration:boundary:reject", 1000)] },
            SubCheck { name: "ops", cases: (200_000, 4_000_000), tape_len: 60, run: ops, min_labels: &[("offset:err", 300), ("durationSince:err", 300), ("toDate:ok", 3000), ("isInRange:ok", 10_000)] },
            SubCheck { name: "equality", cases: (100_000, 2_000_000), tape_len: 80, run: equality, min_labels: &[("equal-different-spelling", 10_000), ("datetime:equal", 3000), ("ip:unequal", 3000)] },
        ],
    }
}
