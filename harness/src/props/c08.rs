//! C08 — template linking equals substitution; policy-set edits keep ids consistent.

use crate::bridge;
use crate::emit::{policy as pemit, text};
use crate::engine::{Property, Rec, SubCheck};
use crate::gen::u;
use crate::props::c01::{norm, Norm};
use crate::refmodel::policy::{ActC, EntRef, PrC, RPolicy};
use crate::refmodel::{b, BinOp, Uid, Var, E, V};
use crate::tape::Tape;
use cedar_policy::{Authorizer, EntityUid, Policy, PolicyId, PolicySet, SlotId, Template};
use std::collections::{BTreeMap, BTreeSet, HashMap};
use std::sync::OnceLock;

const IDS: [&str; 5] = ["p0", "p1", "t0", "policy0", "x y"];

/// 4 static policies (0..4) and 4 templates (4..8), structurally distinct
fn pool() -> &'static Vec<RPolicy> {
    static P: OnceLock<Vec<RPolicy>> = OnceLock::new();
    P.get_or_init(|| {
        let u = |t: &str, i: &str| Uid::new(t, i);
        let act = |i: &str| Uid::new("Action", i);
        let ann = |k: &str, v: &str| vec![(k.to_string(), v.to_string())];
        vec![
            RPolicy { permit: true, principal: PrC::Eq(EntRef::Uid(u("A", "a0"))), action: ActC::Any, resource: PrC::Any, conds: vec![], annotations: ann("id", "s0") },
            RPolicy {
                permit: false,
                principal: PrC::Any,
                action: ActC::Eq(act("view")),
                resource: PrC::Any,
                conds: vec![(true, E::And(b(E::Has(b(E::Var(Var::Resource)), vec!["n".into()])), b(E::Bin(BinOp::Gt, b(E::GetAttr(b(E::Var(Var::Resource)), "n".into())), b(E::long(0))))))],
                annotations: vec![],
            },
            RPolicy { permit: true, principal: PrC::Any, action: ActC::Any, resource: PrC::Any, conds: vec![(true, E::Bin(BinOp::In, b(E::Var(Var::Principal)), b(E::Lit(V::Euid(u("B", "b1"))))))], annotations: vec![] },
            RPolicy { permit: true, principal: PrC::Any, action: ActC::Any, resource: PrC::Any, conds: vec![(false, E::GetAttr(b(E::Var(Var::Context)), "flag".into()))], annotations: ann("advice", "x\"y") },
            RPolicy { permit: true, principal: PrC::Eq(EntRef::Slot), action: ActC::Any, resource: PrC::Any, conds: vec![], annotations: ann("id", "t0") },
            RPolicy { permit: false, principal: PrC::Any, action: ActC::Any, resource: PrC::In(EntRef::Slot), conds: vec![(true, E::Has(b(E::Var(Var::Context)), vec!["flag".into()]))], annotations: vec![] },
            RPolicy { permit: true, principal: PrC::IsIn("A".into(), EntRef::Slot), action: ActC::Any, resource: PrC::IsIn("B".into(), EntRef::Slot), conds: vec![], annotations: vec![] },
            RPolicy {
                permit: false,
                principal: PrC::In(EntRef::Slot),
                action: ActC::InSet(vec![act("view"), act("edit")]),
                resource: PrC::Eq(EntRef::Slot),
                conds: vec![(false, E::Bin(BinOp::Eq, b(E::Var(Var::Principal)), b(E::Var(Var::Resource))))],
                annotations: ann("k", "v"),
            },
        ]
    })
}

fn texts() -> &'static Vec<String> {
    static T: OnceLock<Vec<String>> = OnceLock::new();
    T.get_or_init(|| pool().iter().map(|p| pemit::policy_text(p, &mut text::Style::canonical())).collect())
}

type Binding = BTreeMap<bool, Uid>; // key: true = ?principal, false = ?resource

#[derive(Clone, Debug, PartialEq, Eq)]
enum Item {
    Static(usize),
    Template(usize),
    Link(String, Binding),
}

type Model = BTreeMap<String, Item>;

fn slots_of(k: usize) -> BTreeSet<bool> {
    let p = &pool()[k];
    let mut s = BTreeSet::new();
    if p.principal.has_slot() {
        s.insert(true);
    }
    if p.resource.has_slot() {
        s.insert(false);
    }
    s
}

#[derive(Clone, Debug)]
enum Op {
    Add(String, usize),
    AddTemplate(String, usize),
    Link(String, String, Binding),
    Unlink(String),
    RemoveStatic(String),
    RemoveTemplate(String),
    Merge(Vec<Op>, bool),
}

fn gen_id(t: &mut Tape) -> String {
    IDS[t.upto(IDS.len())].to_string()
}

fn gen_free_id(t: &mut Tape, model: &Model) -> String {
    let free: Vec<&str> = IDS.iter().copied().filter(|i| !model.contains_key(*i)).collect();
    if !free.is_empty() && t.bool_p(2, 3) {
        free[t.upto(free.len())].to_string()
    } else {
        gen_id(t)
    }
}

fn gen_used_id(t: &mut Tape, model: &Model) -> String {
    let used: Vec<&String> = model.keys().collect();
    if !used.is_empty() && t.bool_p(3, 4) {
        used[t.upto(used.len())].clone()
    } else {
        gen_id(t)
    }
}

fn gen_op(t: &mut Tape, model: &Model, allow_merge: bool) -> Op {
    let templates: Vec<&String> = model.iter().filter(|(_, v)| matches!(v, Item::Template(_))).map(|(k, _)| k).collect();
    match t.weighted(&[3, 3, 5, 2, 2, 2, if allow_merge { 2 } else { 0 }]) {
        0 => Op::Add(gen_free_id(t, model), t.upto(4)),
        1 => Op::AddTemplate(gen_free_id(t, model), 4 + t.upto(4)),
        2 => {
            let tid = if !templates.is_empty() && t.bool_p(4, 5) { templates[t.upto(templates.len())].clone() } else { gen_id(t) };
            let want: BTreeSet<bool> = match model.get(&tid) {
                Some(Item::Template(k)) => slots_of(*k),
                _ => [true].into_iter().collect(),
            };
            let mut bind: Binding = want.iter().map(|s| (*s, u::gen_uid(t))).collect();
            match t.weighted(&[6, 1, 1, 1]) {
                1 => {
                    // missing slot
                    if let Some(k) = bind.keys().next().copied() {
                        bind.remove(&k);
                    }
                }
                2 => {
                    // extra slot
                    for s in [true, false] {
                        bind.entry(s).or_insert_with(|| u::gen_uid(t));
                    }
                }
                3 => {
                    // wrong slot
                    bind = bind.into_iter().map(|(k, v)| (!k, v)).collect();
                }
                _ => {}
            }
            Op::Link(tid, gen_free_id(t, model), bind)
        }
        3 => Op::Unlink(gen_used_id(t, model)),
        4 => Op::RemoveStatic(gen_used_id(t, model)),
        5 => Op::RemoveTemplate(gen_used_id(t, model)),
        _ => {
            let n = 1 + t.upto(4);
            let mut m = Model::new();
            let mut ops = Vec::new();
            for _ in 0..n {
                let op = gen_op(t, &m, false);
                if let Ok(m2) = apply_model(&m, &op) {
                    m = m2;
                }
                ops.push(op);
            }
            Op::Merge(ops, t.coin())
        }
    }
}

/// documented error rules; Err(reason) = the operation must fail and change nothing
fn apply_model(m: &Model, op: &Op) -> Result<Model, &'static str> {
    let mut n = m.clone();
    match op {
        Op::Add(id, k) => {
            if n.contains_key(id) {
                return Err("id already defined");
            }
            n.insert(id.clone(), Item::Static(*k));
        }
        Op::AddTemplate(id, k) => {
            if n.contains_key(id) {
                return Err("id already defined");
            }
            n.insert(id.clone(), Item::Template(*k));
        }
        Op::Link(tid, new_id, bind) => {
            let Some(Item::Template(k)) = n.get(tid) else { return Err("not a template") };
            if n.contains_key(new_id) {
                return Err("id already defined");
            }
            if bind.keys().copied().collect::<BTreeSet<_>>() != slots_of(*k) {
                return Err("slot arity");
            }
            n.insert(new_id.clone(), Item::Link(tid.clone(), bind.clone()));
        }
        Op::Unlink(id) => match n.get(id) {
            Some(Item::Link(..)) => {
                n.remove(id);
            }
            _ => return Err("not a link"),
        },
        Op::RemoveStatic(id) => match n.get(id) {
            Some(Item::Static(_)) => {
                n.remove(id);
            }
            _ => return Err("not a static policy"),
        },
        Op::RemoveTemplate(id) => match n.get(id) {
            Some(Item::Template(_)) => {
                if n.values().any(|v| matches!(v, Item::Link(t, _) if t == id)) {
                    return Err("template has links");
                }
                n.remove(id);
            }
            _ => return Err("not a template"),
        },
        Op::Merge(..) => unreachable!("merge is handled by the caller"),
    }
    Ok(n)
}

fn slot_map(bind: &Binding) -> HashMap<SlotId, EntityUid> {
    bind.iter().map(|(k, v)| (if *k { SlotId::principal() } else { SlotId::resource() }, bridge::euid(v))).collect()
}

fn apply_real(ps: &mut PolicySet, op: &Op) -> Result<(), String> {
    match op {
        Op::Add(id, k) => {
            let p = Policy::parse(Some(PolicyId::new(id)), &texts()[*k]).map_err(|e| format!("harness: {e}"))?;
            ps.add(p).map_err(|e| e.to_string())
        }
        Op::AddTemplate(id, k) => {
            let p = Template::parse(Some(PolicyId::new(id)), &texts()[*k]).map_err(|e| format!("harness: {e}"))?;
            ps.add_template(p).map_err(|e| e.to_string())
        }
        Op::Link(tid, new_id, bind) => ps.link(PolicyId::new(tid), PolicyId::new(new_id), slot_map(bind)).map_err(|e| e.to_string()),
        Op::Unlink(id) => ps.unlink(PolicyId::new(id)).map(|_| ()).map_err(|e| e.to_string()),
        Op::RemoveStatic(id) => ps.remove_static(PolicyId::new(id)).map(|_| ()).map_err(|e| e.to_string()),
        Op::RemoveTemplate(id) => ps.remove_template(PolicyId::new(id)).map(|_| ()).map_err(|e| e.to_string()),
        Op::Merge(..) => unreachable!(),
    }
}

fn show_op(op: &Op) -> String {
    match op {
        Op::Add(id, k) => format!("add(id={id:?}, {})", texts()[*k]),
        Op::AddTemplate(id, k) => format!("add_template(id={id:?}, {})", texts()[*k]),
        Op::Link(t, n, bnd) => format!("link(template={t:?}, new_id={n:?}, {{{}}})", bnd.iter().map(|(k, v)| format!("{}: {}::{:?}", if *k { "?principal" } else { "?resource" }, v.ty, v.id)).collect::<Vec<_>>().join(", ")),
        Op::Unlink(id) => format!("unlink({id:?})"),
        Op::RemoveStatic(id) => format!("remove_static({id:?})"),
        Op::RemoveTemplate(id) => format!("remove_template({id:?})"),
        Op::Merge(ops, r) => format!("merge(other = [{}], rename_duplicates={r})", ops.iter().map(show_op).collect::<Vec<_>>().join("; ")),
    }
}

/// The meaning of every policy of the model as a static policy (link = template with the uid written in place of the slot)
fn meaning(m: &Model) -> Vec<(String, RPolicy)> {
    m.iter()
        .filter_map(|(id, it)| match it {
            Item::Static(k) => Some((id.clone(), pool()[*k].clone())),
            Item::Template(_) => None,
            Item::Link(tid, bnd) => match m.get(tid) {
                Some(Item::Template(k)) => Some((id.clone(), pool()[*k].link(bnd.get(&true), bnd.get(&false)))),
                _ => panic!("harness: model link without template"),
            },
        })
        .collect()
}

fn check_state(ps: &PolicySet, m: &Model, reqs: &[(cedar_policy::Request, cedar_policy::Entities)], rec: &mut Rec<'_>, step: usize) {
    let pol_ids: BTreeSet<String> = ps.policies().map(|p| p.id().to_string()).collect();
    let tpl_ids: BTreeSet<String> = ps.templates().map(|p| p.id().to_string()).collect();
    let m_pol: BTreeSet<String> = m.iter().filter(|(_, v)| !matches!(v, Item::Template(_))).map(|(k, _)| k.clone()).collect();
    let m_tpl: BTreeSet<String> = m.iter().filter(|(_, v)| matches!(v, Item::Template(_))).map(|(k, _)| k.clone()).collect();
    if pol_ids != m_pol {
        rec.fail("state:policy-ids", format!("step {step}: policies() = {pol_ids:?}, the successful operations imply {m_pol:?}"));
        return;
    }
    if tpl_ids != m_tpl {
        rec.fail("state:template-ids", format!("step {step}: templates() = {tpl_ids:?}, the successful operations imply {m_tpl:?}"));
        return;
    }
    if ps.num_of_policies() != m_pol.len() || ps.num_of_templates() != m_tpl.len() || ps.is_empty() != (m_pol.is_empty() && m_tpl.is_empty()) {
        rec.fail("state:counts", format!("step {step}: num_of_policies={} num_of_templates={} is_empty={} vs model {} / {}", ps.num_of_policies(), ps.num_of_templates(), ps.is_empty(), m_pol.len(), m_tpl.len()));
        return;
    }
    for id in IDS {
        let pid = PolicyId::new(id);
        let item = m.get(id);
        let p = ps.policy(&pid);
        let tp = ps.template(&pid);
        let exp_p = matches!(item, Some(Item::Static(_)) | Some(Item::Link(..)));
        let exp_t = matches!(item, Some(Item::Template(_)));
        if p.is_some() != exp_p || tp.is_some() != exp_t {
            rec.fail("state:lookup", format!("step {step}: id {id:?}: policy() is_some={} template() is_some={}, model item {item:?}", p.is_some(), tp.is_some()));
            return;
        }
        match (item, p, tp) {
            (Some(Item::Static(k)), Some(p), _) => {
                if !p.is_static() || p.template_id().is_some() {
                    rec.fail("state:static-kind", format!("step {step}: {id:?} should be a static policy"));
                    return;
                }
                if let Err(e) = bridge::template_matches(p.as_ref().template(), &pool()[*k]) {
                    rec.fail("state:static-content", format!("step {step}: {id:?}: {e}"));
                    return;
                }
            }
            (Some(Item::Template(k)), _, Some(tp)) => {
                if let Err(e) = bridge::template_matches(tp.as_ref(), &pool()[*k]) {
                    rec.fail("state:template-content", format!("step {step}: {id:?}: {e}"));
                    return;
                }
                let links: BTreeSet<String> = match ps.get_linked_policies(pid.clone()) {
                    Ok(it) => it.map(|i| i.to_string()).collect(),
                    Err(e) => {
                        rec.fail("state:linked-policies", format!("step {step}: get_linked_policies({id:?}) failed: {e}"));
                        return;
                    }
                };
                let want: BTreeSet<String> = m.iter().filter(|(_, v)| matches!(v, Item::Link(t, _) if t == id)).map(|(k, _)| k.clone()).collect();
                if links != want {
                    rec.fail("state:linked-policies", format!("step {step}: get_linked_policies({id:?}) = {links:?}, model {want:?}"));
                    return;
                }
            }
            (Some(Item::Link(tid, bnd)), Some(p), _) => {
                let got_bind = p.template_links().map(|h| h.into_iter().map(|(k, v)| (k == SlotId::principal(), bridge::uid_of(&v))).collect::<Binding>());
                if p.is_static() || p.template_id().map(|t| t.to_string()) != Some(tid.clone()) || got_bind.as_ref() != Some(bnd) {
                    rec.fail("state:link-kind", format!("step {step}: {id:?}: is_static={} template_id={:?} bindings={got_bind:?}; model: link of {tid:?} with {bnd:?}", p.is_static(), p.template_id()));
                    return;
                }
                // a link's effect and annotations are those of its template
                if let Some(Item::Template(k)) = m.get(tid) {
                    let tpl = &pool()[*k];
                    let want_eff = if tpl.permit { cedar_policy::Effect::Permit } else { cedar_policy::Effect::Forbid };
                    let got_ann: BTreeMap<String, String> = p.annotations().map(|(a, c)| (a.to_string(), c.to_string())).collect();
                    let want_ann: BTreeMap<String, String> = tpl.annotations.iter().cloned().collect();
                    if p.effect() != want_eff || got_ann != want_ann {
                        rec.fail("state:link-effect-annotations", format!("step {step}: link {id:?}: effect {:?} annotations {got_ann:?}; template has {want_eff:?} {want_ann:?}", p.effect()));
                        return;
                    }
                    for (a, c) in &want_ann {
                        if ps.annotation(&pid, a) != Some(c.as_str()) {
                            rec.fail("state:link-effect-annotations", format!("step {step}: PolicySet::annotation({id:?}, {a:?}) = {:?}", ps.annotation(&pid, a)));
                            return;
                        }
                    }
                }
            }
            _ => {}
        }
        if !exp_t && ps.get_linked_policies(pid.clone()).is_ok() && !matches!(item, Some(Item::Static(_))) {
            rec.fail("state:linked-policies", format!("step {step}: get_linked_policies({id:?}) succeeds although {id:?} is not a template"));
            return;
        }
    }
    // substitution oracle: the edited set authorizes exactly like the static set written out from the model
    let mut fresh = PolicySet::new();
    for (id, rp) in meaning(m) {
        let txt = pemit::policy_text(&rp, &mut text::Style::canonical());
        match Policy::parse(Some(PolicyId::new(&id)), &txt) {
            Ok(p) => {
                if let Err(e) = fresh.add(p) {
                    rec.fail("harness-fresh-set", format!("{e}"));
                    return;
                }
            }
            Err(e) => {
                rec.fail("harness-fresh-set", format!("{txt}: {e}"));
                return;
            }
        }
    }
    let auth = Authorizer::new();
    let ident = |s: &str| s.to_string();
    for (rq, ents) in reqs {
        let a: Norm = norm(&auth.is_authorized(rq, ps, ents), &ident);
        let c: Norm = norm(&auth.is_authorized(rq, &fresh, ents), &ident);
        if a != c {
            rec.fail("substitution", format!("step {step}: the edited set answers {a:?}; the static set obtained by writing each linked entity in place of its slot answers {c:?}"));
            return;
        }
    }
    // what each policy *says it is*: its own JSON and its own text, read back as static policies, mean the same
    for (how, render) in [("to_json", true), ("Display", false)] {
        let mut said = PolicySet::new();
        let mut complete = true;
        for p in ps.policies() {
            let back = if render {
                p.to_json().ok().and_then(|j| Policy::from_json(Some(p.id().clone()), j).ok())
            } else {
                Policy::parse(Some(p.id().clone()), p.to_string()).ok()
            };
            match back {
                Some(q) if said.add(q.clone()).is_ok() => {}
                _ => {
                    complete = false;
                    break;
                }
            }
        }
        if !complete {
            rec.label(format!("rendering-skipped:{how}"));
            continue;
        }
        for (rq, ents) in reqs {
            let a: Norm = norm(&auth.is_authorized(rq, &said, ents), &ident);
            let c: Norm = norm(&auth.is_authorized(rq, &fresh, ents), &ident);
            if a != c {
                rec.fail(format!("rendering:{how}"), format!("step {step}: the policies as rendered by their own {how} answer {a:?}; the static set written out from the successful operations answers {c:?}\n{}", said));
                return;
            }
        }
    }
}

fn history(t: &mut Tape, rec: &mut Rec<'_>) {
    let world = u::gen_world(t);
    let ents = match bridge::entities(&world) {
        Ok(e) => e,
        Err(_) => {
            rec.discard("world-rejected");
            return;
        }
    };
    let mut reqs = Vec::new();
    for _ in 0..2 {
        let r = u::gen_req(t);
        if let Ok(rq) = bridge::request(&r) {
            reqs.push((rq, ents.clone()));
        }
    }
    let nops = 2 + t.upto(rec.size(11, 29));
    let mut model = Model::new();
    let mut ps = PolicySet::new();
    let mut log = Vec::new();
    let (mut links_ok, mut failed_ops, mut reused, mut merges) = (0, 0, false, 0);
    let mut removed: BTreeSet<String> = BTreeSet::new();
    for step in 0..nops {
        let op = gen_op(t, &model, true);
        let shown = show_op(&op);
        if let Op::Merge(ops, rename) = &op {
            // build `other`
            let mut om = Model::new();
            let mut other = PolicySet::new();
            for o in ops {
                let exp = apply_model(&om, o);
                let got = apply_real(&mut other, o);
                match (exp, got) {
                    (Ok(m2), Ok(())) => om = m2,
                    (Err(_), Err(_)) => {}
                    (e, g) => {
                        rec.fail("op-outcome", format!("step {step} (building merge operand) {}: library {:?}, documented rules {:?}", show_op(o), g, e.map(|_| ())));
                        log.push(shown.clone());
                        rec.render(|| log.join("\n"));
                        return;
                    }
                }
            }
            // identical content?
            let same = |id: &String| -> bool {
                match (model.get(id), om.get(id)) {
                    (Some(Item::Link(t1, b1)), Some(Item::Link(t2, b2))) => t1 == t2 && b1 == b2 && model.get(t1) == om.get(t2),
                    (Some(a), Some(c)) => a == c,
                    _ => false,
                }
            };
            let colliding: BTreeSet<String> = om.keys().filter(|k| model.contains_key(*k) && !same(k)).cloned().collect();
            let before = ps.clone();
            let res = ps.merge(&other, *rename);
            merges += 1;
            match res {
                Err(e) => {
                    log.push(format!("{shown} -> Err({e})"));
                    if *rename || colliding.is_empty() {
                        rec.fail("merge:unexpected-error", format!("step {step}: {shown} failed with `{e}` although {}", if *rename { "rename_duplicates=true" } else { "no id collides with different content" }));
                    }
                    ps = before;
                    failed_ops += 1;
                }
                Ok(renaming) => {
                    let ren: BTreeMap<String, String> = renaming.iter().map(|(a, c)| (a.to_string(), c.to_string())).collect();
                    log.push(format!("{shown} -> Ok(renaming {ren:?})"));
                    if !*rename && !colliding.is_empty() {
                        rec.fail("merge:collision-accepted", format!("step {step}: {shown} succeeded without renaming although ids {colliding:?} collide with different content"));
                    } else {
                        // the renaming must be injective, fresh, and cover exactly the colliding ids
                        let news: BTreeSet<&String> = ren.values().collect();
                        let fresh_ok = ren.values().all(|n| !model.contains_key(n) && !om.contains_key(n));
                        if news.len() != ren.len() || !fresh_ok || ren.keys().cloned().collect::<BTreeSet<_>>() != colliding {
                            rec.fail("merge:renaming", format!("step {step}: renaming {ren:?}; colliding ids {colliding:?}; new ids must be distinct and unused in both sets"));
                        } else {
                            let r = |s: &String| ren.get(s).cloned().unwrap_or_else(|| s.clone());
                            for (id, it) in &om {
                                let it2 = match it {
                                    Item::Link(tid, bnd) => Item::Link(r(tid), bnd.clone()),
                                    x => x.clone(),
                                };
                                model.insert(r(id), it2);
                            }
                        }
                    }
                }
            }
        } else {
            let exp = apply_model(&model, &op);
            let before = ps.clone();
            let got = apply_real(&mut ps, &op);
            match (exp, got) {
                (Ok(m2), Ok(())) => {
                    log.push(format!("{shown} -> Ok"));
                    match &op {
                        Op::Link(..) => links_ok += 1,
                        Op::Unlink(id) | Op::RemoveStatic(id) | Op::RemoveTemplate(id) => {
                            removed.insert(id.clone());
                        }
                        Op::Add(id, _) | Op::AddTemplate(id, _) => {
                            if removed.contains(id) {
                                reused = true;
                            }
                        }
                        _ => {}
                    }
                    if let Op::Link(_, id, _) = &op {
                        if removed.contains(id) {
                            reused = true;
                        }
                    }
                    model = m2;
                }
                (Err(why), Err(e)) => {
                    log.push(format!("{shown} -> Err({e}) [rule: {why}]"));
                    failed_ops += 1;
                    // a failed operation changes nothing: checked through the observers below (model unchanged)
                    let _ = before;
                }
                (Ok(_), Err(e)) => {
                    log.push(format!("{shown} -> Err({e})"));
                    rec.fail("op-outcome:unexpected-error", format!("step {step}: {shown} failed with `{e}`; the documented rules say it succeeds"));
                }
                (Err(why), Ok(())) => {
                    log.push(format!("{shown} -> Ok"));
                    let sig = match &op {
                        Op::Link(..) => format!("op-outcome:link-accepted:{}", why.replace(' ', "-")),
                        _ => "op-outcome:accepted".to_string(),
                    };
                    rec.fail(sig, format!("step {step}: {shown} succeeded; the documented rules say it fails ({why})"));
                }
            }
        }
        if rec.failed() {
            break;
        }
        check_state(&ps, &model, &reqs, rec, step);
        if rec.failed() {
            break;
        }
    }
    // the edited set written as JSON and read back describes the same policies, templates and links
    if !rec.failed() {
        match ps.clone().to_json() {
            Ok(j) => match PolicySet::from_json_value(j.clone()) {
                Ok(ps2) => {
                    rec.label("json-roundtrip");
                    check_state(&ps2, &model, &reqs, rec, 9999);
                    if rec.failed() {
                        log.push(format!("(step 9999 = the set after to_json / from_json_value: {j})"));
                    }
                }
                Err(e) => {
                    rec.fail("json-roundtrip:rejected", format!("PolicySet::to_json of the edited set is not accepted by from_json_value: {e}\n{j}"));
                }
            },
            Err(e) => rec.label(format!("to_json-error:{}", e.to_string().chars().take(40).collect::<String>())),
        }
    }
    rec.label_if(links_ok > 0, "link-ok");
    rec.label_if(failed_ops > 0, "failed-op");
    rec.label_if(reused, "id-reused");
    rec.label_if(merges > 0, "merge");
    rec.nontrivial = links_ok > 0 && failed_ops > 0 && (reused || merges > 0);
    rec.set_key(&log);
    rec.render(|| log.join("\n"));
}

pub fn property() -> Property {
    Property {
        id: "C08",
        rule: "histories of 2..12 (thorough 2..30) operations add / add_template / link (exact, missing, extra, wrong slot) / unlink / remove_static / remove_template / merge(other built by its own short history, rename on/off) \
               over 5 ids and 8 structurally distinct texts (4 static, 4 templates with ?principal/?resource in ==, in, is..in). Model = map id -> static | template | link with the documented error rules; after every step all observers \
               (policies, templates, policy, template, get_linked_policies, counts, is_static, template_id, template_links, effect, annotations) equal the model, a failed operation changes nothing, and authorization over the edited set equals \
               authorization over the static set obtained by writing each linked entity in place of its slot (2 requests). Non-trivial = >=1 successful link, >=1 failed operation and (an id reused after removal or a merge).",
        assumptions: &["reference model of the policy set (id map + documented error rules)", "harness text emitter for substituted policies"],
        subs: vec![SubCheck { name: "history", cases: (150_000, 3_000_000), tape_len: 1200, run: history, min_labels: &[("link-ok", 40_000), ("failed-op", 40_000), ("id-reused", 10_000), ("merge", 20_000)] }],
    }
}
