//! C02 — expression evaluation follows the Cedar language semantics (reference interpreter + 5 delivery paths).

use crate::bridge::{self, Got};
use crate::emit::{est, text};
use crate::engine::{Property, Rec, SubCheck};
use crate::gen::u::{self, K};
use crate::refmodel::{self as rm, Class, Outcome, E, V};
use crate::tape::Tape;
use cedar_policy::{Authorizer, AuthorizationError, Decision, Entities, Policy, PolicyId, PolicySet, Request};
use cedar_policy_core::ast;
use std::str::FromStr;

pub fn op_name(e: &E) -> &'static str {
    match e {
        E::Lit(_) => "Lit",
        E::Var(_) => "Var",
        E::If(..) => "If",
        E::And(..) => "And",
        E::Or(..) => "Or",
        E::Not(_) => "Not",
        E::Neg(_) => "Neg",
        E::Bin(op, ..) => match op {
            rm::BinOp::Eq => "Eq",
            rm::BinOp::Neq => "Neq",
            rm::BinOp::Lt => "Lt",
            rm::BinOp::Le => "Le",
            rm::BinOp::Gt => "Gt",
            rm::BinOp::Ge => "Ge",
            rm::BinOp::Add => "Add",
            rm::BinOp::Sub => "Sub",
            rm::BinOp::Mul => "Mul",
            rm::BinOp::In => "In",
            rm::BinOp::Contains => "Contains",
            rm::BinOp::ContainsAll => "ContainsAll",
            rm::BinOp::ContainsAny => "ContainsAny",
            rm::BinOp::GetTag => "GetTag",
            rm::BinOp::HasTag => "HasTag",
        },
        E::IsEmpty(_) => "IsEmpty",
        E::GetAttr(..) => "GetAttr",
        E::Has(_, p) => {
            if p.len() > 1 {
                "HasChain"
            } else {
                "Has"
            }
        }
        E::Like(..) => "Like",
        E::Is(_, _, None) => "Is",
        E::Is(_, _, Some(_)) => "IsIn",
        E::Set(_) => "Set",
        E::Rec(_) => "Rec",
        E::Call(..) => "Call",
    }
}

/// What a single-policy authorization shows: satisfied / not / error class.
#[derive(Debug, Clone, PartialEq)]
pub enum Seen {
    Sat,
    Unsat,
    Err(Option<Class>, String),
}

pub fn observe(p: Policy, req: &Request, ents: &Entities) -> Seen {
    let ps = match PolicySet::from_policies([p]) {
        Ok(ps) => ps,
        Err(e) => return Seen::Err(None, format!("policy set construction failed: {e}")),
    };
    let resp = Authorizer::new().is_authorized(req, &ps, ents);
    let errs: Vec<&AuthorizationError> = resp.diagnostics().errors().collect();
    if let Some(AuthorizationError::PolicyEvaluationError(e)) = errs.first() {
        return Seen::Err(bridge::class(e.inner()), e.inner().to_string());
    }
    if resp.decision() == Decision::Allow {
        Seen::Sat
    } else {
        Seen::Unsat
    }
}

/// expected observation for a `when` (negate=false) or `unless` clause
pub fn expected(want: &rm::R, negate: bool) -> Result<Outcome, rm::Err> {
    match want {
        Ok(V::Bool(b)) => Ok(if *b != negate { Outcome::Sat } else { Outcome::Unsat }),
        Ok(_) => Err(rm::Err::of(Class::Type)),
        Err(e) => Err(e.clone()),
    }
}

pub fn seen_agrees(seen: &Seen, exp: &Result<Outcome, rm::Err>) -> bool {
    match (seen, exp) {
        (Seen::Sat, Ok(Outcome::Sat)) | (Seen::Unsat, Ok(Outcome::Unsat)) => true,
        (Seen::Err(Some(c), _), Err(e)) => e.accepts(*c),
        _ => false,
    }
}

fn nontrivial(e: &E) -> bool {
    e.depth() >= 3 && e.size() >= 6
}

fn eval_case(t: &mut Tape, rec: &mut Rec<'_>) {
    let world = u::gen_world(t);
    let req = u::gen_req(t);
    let (ents, creq) = match (bridge::entities(&world), bridge::request(&req)) {
        (Ok(e), Ok(r)) => (e, r),
        (e, r) => {
            rec.discard("world-rejected");
            rec.render(|| format!("world rejected: {:?} {:?}", e.err(), r.err()));
            return;
        }
    };
    let n_exprs = 1 + t.upto(3);
    let maxd = rec.size(5, 7);
    let cx = rm::Ctx { req: &req, world: &world };
    let mut keys = Vec::new();
    for _ in 0..n_exprs {
        let depth = 1 + t.upto(maxd);
        let kind = if t.bool_p(2, 3) { K::Bool } else { u::KINDS[t.upto(u::KINDS.len())] };
        let e = u::gen_expr(t, depth, kind);
        let want = rm::eval(&e, &cx);
        let style_sel = t.upto(3);
        let txt = match style_sel {
            0 => text::expr(&e, &mut text::Style::canonical()),
            1 => text::expr(&e, &mut text::Style::full()),
            _ => text::expr(&e, &mut text::Style::random(t)),
        };
        let outcome = match &want {
            Ok(_) => "ok",
            Err(er) => match er.class {
                Class::Type => "err-type",
                Class::NoEntity => "err-noentity",
                Class::NoAttr => "err-noattr",
                Class::Overflow => "err-overflow",
                Class::Ext => "err-ext",
                Class::Arity => "err-arity",
                Class::UnknownFn => "err-unknownfn",
            },
        };
        rec.label(format!("{}:{}", op_name(&e), if want.is_ok() { "ok" } else { "err" }));
        rec.label(outcome);
        for c in e.children() {
            rec.label(format!("{}:{}", op_name(c), if rm::eval(c, &cx).is_ok() { "ok" } else { "err" }));
        }
        if nontrivial(&e) {
            rec.nontrivial = true;
        }
        keys.push(txt.clone());
        let show = |rec: &mut Rec<'_>| {
            rec.render(|| {
                format!(
                    "expression: {txt}\nrequest: principal={} action={} resource={} context={}\nentities: {}\nreference: {want:?}",
                    text::uid(&req.principal, &mut text::Style::canonical()),
                    text::uid(&req.action, &mut text::Style::canonical()),
                    text::uid(&req.resource, &mut text::Style::canonical()),
                    text::value(&V::Rec(req.context.clone())),
                    ents.to_json_value().map(|j| j.to_string()).unwrap_or_else(|e| format!("<unserialisable: {e}>")),
                )
            })
        };
        // path 1: expression text -> evaluator
        let parsed = match ast::Expr::from_str(&txt) {
            Ok(p) => p,
            Err(err) => {
                rec.fail("generated-text-rejected", format!("the parser rejected a by-construction-valid expression: {txt}\n{err}"));
                show(rec);
                return;
            }
        };
        let got = bridge::interpret(&parsed, &creq, &ents);
        if let Err(msg) = bridge::agree(&got, &want) {
            let sig = format!("eval:{}:{}", op_name(&e), match (&got, &want) {
                (Got::Val(_), Ok(_)) => "wrong-value",
                (Got::Val(_), Err(_)) => "value-instead-of-error",
                (Got::Err(_), Ok(_)) => "error-instead-of-value",
                (Got::Err(_), Err(_)) => "wrong-error-class",
                _ => "other",
            });
            rec.fail(sig, format!("path=expr-text  {txt}\n{msg}"));
            show(rec);
            return;
        }
        // paths 2,3: when / unless clause of a policy, through the authorizer
        for (negate, kw) in [(false, "when"), (true, "unless")] {
            let ptxt = format!("permit(principal, action, resource) {kw} {{ {txt} }};");
            let p = match Policy::parse(Some(PolicyId::new("p")), &ptxt) {
                Ok(p) => p,
                Err(err) => {
                    rec.fail("generated-text-rejected", format!("the parser rejected a by-construction-valid policy: {ptxt}\n{err}"));
                    show(rec);
                    return;
                }
            };
            let seen = observe(p, &creq, &ents);
            let exp = expected(&want, negate);
            if !seen_agrees(&seen, &exp) {
                rec.fail(format!("policy-{kw}:{}", op_name(&e)), format!("path={kw}-clause  {ptxt}\nobserved {seen:?}, reference expects {exp:?}"));
                show(rec);
                return;
            }
        }
        // path 4: JSON policy
        let negate = t.coin();
        let j = est::policy_with_condition(true, !negate, &e);
        match Policy::from_json(Some(PolicyId::new("j")), j.clone()) {
            Ok(p) => {
                let seen = observe(p, &creq, &ents);
                let exp = expected(&want, negate);
                if !seen_agrees(&seen, &exp) {
                    rec.fail(format!("policy-json:{}", op_name(&e)), format!("path=json  {j}\nobserved {seen:?}, reference expects {exp:?}\ntext form: {txt}"));
                    show(rec);
                    return;
                }
            }
            Err(err) => {
                rec.fail("generated-json-rejected", format!("from_json rejected a by-construction-valid JSON policy: {j}\n{err}"));
                show(rec);
                return;
            }
        }
        if rec.want_render {
            show(rec);
        }
    }
    rec.set_key(&keys);
}

// ---------------------------------------------------------------------------------------------
// path 5: scope

#[derive(Clone, Debug)]
enum PrScope {
    Any,
    Eq(rm::Uid),
    In(rm::Uid),
    Is(String),
    IsIn(String, rm::Uid),
}

#[derive(Clone, Debug)]
enum ActScope {
    Any,
    Eq(rm::Uid),
    In(rm::Uid),
    InSet(Vec<rm::Uid>),
}

fn gen_prscope(t: &mut Tape) -> PrScope {
    let tys = ["A", "B", "NS::C", "C", "Action"];
    match t.upto(5) {
        0 => PrScope::Any,
        1 => PrScope::Eq(u::gen_uid(t)),
        2 => PrScope::In(u::gen_uid(t)),
        3 => PrScope::Is(tys[t.upto(tys.len())].to_string()),
        _ => PrScope::IsIn(tys[t.upto(tys.len())].to_string(), u::gen_uid(t)),
    }
}

fn prscope_text(var: &str, s: &PrScope) -> String {
    let c = &mut text::Style::canonical();
    match s {
        PrScope::Any => var.to_string(),
        PrScope::Eq(u) => format!("{var} == {}", text::uid(u, c)),
        PrScope::In(u) => format!("{var} in {}", text::uid(u, c)),
        PrScope::Is(t) => format!("{var} is {t}"),
        PrScope::IsIn(t, u) => format!("{var} is {t} in {}", text::uid(u, c)),
    }
}

fn prscope_json(s: &PrScope) -> serde_json::Value {
    use serde_json::json;
    let ent = |u: &rm::Uid| json!({"type": u.ty, "id": u.id});
    match s {
        PrScope::Any => json!({"op": "All"}),
        PrScope::Eq(u) => json!({"op": "==", "entity": ent(u)}),
        PrScope::In(u) => json!({"op": "in", "entity": ent(u)}),
        PrScope::Is(t) => json!({"op": "is", "entity_type": t}),
        PrScope::IsIn(t, u) => json!({"op": "is", "entity_type": t, "in": {"entity": ent(u)}}),
    }
}

fn prscope_expr(var: rm::Var, s: &PrScope) -> E {
    use rm::{b, BinOp};
    let v = E::Var(var);
    match s {
        PrScope::Any => E::bool(true),
        PrScope::Eq(u) => E::Bin(BinOp::Eq, b(v), b(E::Lit(V::Euid(u.clone())))),
        PrScope::In(u) => E::Bin(BinOp::In, b(v), b(E::Lit(V::Euid(u.clone())))),
        PrScope::Is(t) => E::Is(b(v), t.clone(), None),
        PrScope::IsIn(t, u) => E::Is(b(v), t.clone(), Some(b(E::Lit(V::Euid(u.clone()))))),
    }
}

fn scope_case(t: &mut Tape, rec: &mut Rec<'_>) {
    use rm::{b, BinOp};
    let world = u::gen_world(t);
    let req = u::gen_req(t);
    let (ents, creq) = match (bridge::entities(&world), bridge::request(&req)) {
        (Ok(e), Ok(r)) => (e, r),
        _ => {
            rec.discard("world-rejected");
            return;
        }
    };
    let ps = gen_prscope(t);
    let rs = gen_prscope(t);
    let acts = u::actions();
    let as_ = match t.upto(4) {
        0 => ActScope::Any,
        1 => ActScope::Eq(acts[t.upto(3)].clone()),
        2 => ActScope::In(acts[t.upto(3)].clone()),
        _ => {
            let n = t.upto(4);
            ActScope::InSet((0..n).map(|_| acts[t.upto(3)].clone()).collect())
        }
    };
    let c = &mut text::Style::canonical();
    let atext = match &as_ {
        ActScope::Any => "action".to_string(),
        ActScope::Eq(u) => format!("action == {}", text::uid(u, c)),
        ActScope::In(u) => format!("action in {}", text::uid(u, c)),
        ActScope::InSet(us) => format!("action in [{}]", us.iter().map(|u| text::uid(u, c)).collect::<Vec<_>>().join(", ")),
    };
    let aexpr = match &as_ {
        ActScope::Any => E::bool(true),
        ActScope::Eq(u) => E::Bin(BinOp::Eq, b(E::Var(rm::Var::Action)), b(E::Lit(V::Euid(u.clone())))),
        ActScope::In(u) => E::Bin(BinOp::In, b(E::Var(rm::Var::Action)), b(E::Lit(V::Euid(u.clone())))),
        ActScope::InSet(us) => E::Bin(BinOp::In, b(E::Var(rm::Var::Action)), b(E::Set(us.iter().map(|u| E::Lit(V::Euid(u.clone()))).collect()))),
    };
    let ajson = {
        use serde_json::json;
        let ent = |u: &rm::Uid| json!({"type": u.ty, "id": u.id});
        match &as_ {
            ActScope::Any => json!({"op": "All"}),
            ActScope::Eq(u) => json!({"op": "==", "entity": ent(u)}),
            ActScope::In(u) => json!({"op": "in", "entity": ent(u)}),
            ActScope::InSet(us) => json!({"op": "in", "entities": us.iter().map(ent).collect::<Vec<_>>()}),
        }
    };
    let permit = t.coin();
    let eff = if permit { "permit" } else { "forbid" };
    let ptxt = format!("{eff}({}, {atext}, {});", prscope_text("principal", &ps), prscope_text("resource", &rs));
    let cx = rm::Ctx { req: &req, world: &world };
    let full = E::And(b(E::And(b(prscope_expr(rm::Var::Principal, &ps)), b(aexpr))), b(prscope_expr(rm::Var::Resource, &rs)));
    let want = rm::eval(&full, &cx);
    let sat = matches!(want, Ok(V::Bool(true)));
    rec.label(if sat { "scope-sat" } else { "scope-unsat" });
    rec.nontrivial = !matches!(ps, PrScope::Any) || !matches!(rs, PrScope::Any);
    rec.set_key(&(ptxt.clone(), format!("{req:?}")));
    rec.render(|| format!("policy: {ptxt}\nrequest: {req:?}\nentities: {}\nreference: scope satisfied = {sat}", ents.to_json_value().map(|j| j.to_string()).unwrap_or_default()));
    // The policy matches iff the scope is satisfied; with a single permit policy Allow <=> satisfied,
    // with a single forbid policy the reason set shows it.
    let check = |p: Policy, path: &str, rec: &mut Rec<'_>| {
        let pset = PolicySet::from_policies([p]).unwrap();
        let resp = Authorizer::new().is_authorized(&creq, &pset, &ents);
        let in_reasons = resp.diagnostics().reason().count() == 1;
        let errs = resp.diagnostics().errors().count();
        if errs != 0 || in_reasons != sat || (permit && (resp.decision() == Decision::Allow) != sat) {
            rec.fail(format!("scope:{path}"), format!("path={path} {ptxt}: matched={in_reasons} decision={:?} errors={errs}; reference says scope satisfied = {sat}", resp.decision()));
        }
    };
    match Policy::parse(Some(PolicyId::new("p")), &ptxt) {
        Ok(p) => check(p, "text", rec),
        Err(e) => {
            rec.fail("generated-text-rejected", format!("{ptxt}\n{e}"));
            return;
        }
    }
    let j = serde_json::json!({"effect": eff, "principal": prscope_json(&ps), "action": ajson, "resource": prscope_json(&rs), "conditions": []});
    match Policy::from_json(Some(PolicyId::new("j")), j.clone()) {
        Ok(p) => check(p, "json", rec),
        Err(e) => {
            rec.fail("generated-json-rejected", format!("{j}\n{e}"));
        }
    }
}

pub fn property() -> Property {
    Property {
        id: "C02",
        rule: "World-U (9 uids of 3 types incl. odd ids, attrs/tags/parents, dangling refs) x request x Expr-U (grammar-complete untyped expressions, depth<=5 quick / 7 thorough, \
               ~11% ill-typed operand injection per node, boundary-biased i64, extension constructor strings valid and invalid). Each expression is evaluated by the independent reference \
               interpreter and delivered to cedar as expression text (value compared exactly), when-clause, unless-clause and JSON policy (satisfied/unsatisfied/error class); sub-check `scope` does the \
               same for scope constraints (text and JSON). Non-trivial = expression depth>=3 and >=6 nodes (scope: a non-`All` principal or resource constraint); distinct = distinct rendered text.",
        assumptions: &[
            "reference interpreter refmodel::eval (written from the language docs) and extension arithmetic refmodel::ext",
            "text/JSON emitters of the harness; record literals whose fields error with different classes accept either class",
        ],
        subs: vec![
            SubCheck { name: "eval", cases: (200_000, 6_000_000), tape_len: 900, run: eval_case, min_labels: &[("ok", 50_000), ("err-type", 10_000), ("err-noentity", 1000), ("err-noattr", 5000), ("err-overflow", 1000), ("err-ext", 1000), ("err-arity", 100), ("GetTag:ok", 300), ("GetAttr:ok", 5000)] },
            SubCheck { name: "scope", cases: (60_000, 1_500_000), tape_len: 500, run: scope_case, min_labels: &[("scope-sat", 5000), ("scope-unsat", 5000)] },
        ],
    }
}
