//! C15 — batched (loader-driven) authorization equals ordinary authorization.

use crate::bridge;
use crate::engine::{Property, Rec, SubCheck};
use crate::gen::s::SchemaOpts;
use crate::props::scase::{self, AuthCase, AuthOpts};
use crate::refmodel::policy::{ActC, EntRef, PrC};
use crate::refmodel::*;
use crate::tape::Tape;
use cedar_policy::{Authorizer, Decision, Entities, Entity, EntityLoader, EntityUid, TestEntityLoader};
use std::collections::{BTreeSet, HashMap, HashSet};

fn uids_in_value(v: &V, out: &mut BTreeSet<Uid>) {
    match v {
        V::Euid(u) => {
            out.insert(u.clone());
        }
        V::Set(xs) => xs.iter().for_each(|x| uids_in_value(x, out)),
        V::Rec(m) => m.values().for_each(|x| uids_in_value(x, out)),
        _ => {}
    }
}

fn uids_in_expr(e: &E, out: &mut BTreeSet<Uid>) {
    if let E::Lit(v) = e {
        uids_in_value(v, out);
    }
    e.children().into_iter().for_each(|c| uids_in_expr(c, out));
}

/// every distinct entity id occurring in the store, the request and the policies
pub fn all_uids(c: &AuthCase) -> BTreeSet<Uid> {
    let mut out = BTreeSet::new();
    for (u, d) in &c.world.entities {
        out.insert(u.clone());
        d.attrs.values().chain(d.tags.values()).for_each(|v| uids_in_value(v, &mut out));
        out.extend(d.parents.iter().cloned());
    }
    for a in &c.rs.actions {
        out.insert(a.uid());
    }
    out.insert(c.req.principal.clone());
    out.insert(c.req.action.clone());
    out.insert(c.req.resource.clone());
    uids_in_value(&V::Rec(c.req.context.clone()), &mut out);
    for (_, p, _) in &c.policies {
        for pc in [&p.principal, &p.resource] {
            match pc {
                PrC::Eq(EntRef::Uid(u)) | PrC::In(EntRef::Uid(u)) | PrC::IsIn(_, EntRef::Uid(u)) => {
                    out.insert(u.clone());
                }
                _ => {}
            }
        }
        match &p.action {
            ActC::Eq(u) | ActC::In(u) => {
                out.insert(u.clone());
            }
            ActC::InSet(us) => out.extend(us.iter().cloned()),
            ActC::Any => {}
        }
        for (_, e) in &p.conds {
            uids_in_expr(e, &mut out);
        }
    }
    out
}

/// A loader that returns exactly the store's data for what is requested, plus (optionally) extra entities.
struct SupersetLoader<'a> {
    ents: &'a Entities,
    extra: Vec<EntityUid>,
    rounds: usize,
    absent_requested: bool,
}

impl EntityLoader for SupersetLoader<'_> {
    fn load_entities(&mut self, uids: &HashSet<EntityUid>) -> HashMap<EntityUid, Option<Entity>> {
        if !uids.is_empty() {
            self.rounds += 1;
        }
        let mut out: HashMap<EntityUid, Option<Entity>> = uids.iter().map(|u| (u.clone(), self.ents.get(u).cloned())).collect();
        if out.values().any(|v| v.is_none()) {
            self.absent_requested = true;
        }
        for u in &self.extra {
            out.entry(u.clone()).or_insert_with(|| self.ents.get(u).cloned());
        }
        out
    }
}

fn case(t: &mut Tape, rec: &mut Rec<'_>) {
    let o = AuthOpts { closed_16: 0, schema: SchemaOpts { chains: true, ..SchemaOpts::default() }, max_policies: rec.size(3, 5), depth: rec.size(2, 3), path_budget: 4, traps: false };
    crate::gen::s::DENSE_WORLD.with(|c| c.set(true));
    let generated = scase::gen_auth_case(t, &o);
    crate::gen::s::DENSE_WORLD.with(|c| c.set(false));
    let c = match generated {
        Ok(c) => c,
        Err(e) => {
            rec.discard(e.split(':').next().unwrap_or("discard").to_string());
            return;
        }
    };
    rec.set_key(&c.render());
    rec.render(|| c.render());
    let truth = Authorizer::new().is_authorized(&c.creq, &c.pset, &c.ents).decision();
    let n = all_uids(&c).len();
    let superset = t.coin();
    let extra: Vec<EntityUid> = if superset { c.ents.iter().filter(|_| t.bool_p(1, 3)).map(|e| e.uid()).collect() } else { vec![] };
    let mut first_ok: Option<(usize, Decision)> = None;
    let mut max_rounds = 0;
    let mut absent = false;
    for k in 0..=(n + 1) {
        let res = if superset || k % 2 == 0 {
            let mut l = SupersetLoader { ents: &c.ents, extra: extra.clone(), rounds: 0, absent_requested: false };
            let r = c.pset.is_authorized_batched(&c.creq, &c.schema, &mut l, k as u32);
            max_rounds = max_rounds.max(l.rounds);
            absent |= l.absent_requested;
            r
        } else {
            let mut l = TestEntityLoader::new(&c.ents);
            c.pset.is_authorized_batched(&c.creq, &c.schema, &mut l, k as u32)
        };
        match res {
            Ok(d) => {
                if d != truth {
                    rec.fail("batched-decision", format!("budget {k}: batched authorization returns {d:?}, ordinary authorization over the same store returns {truth:?}\n{}", c.render()));
                    return;
                }
                if first_ok.is_none() {
                    first_ok = Some((k, d));
                }
            }
            Err(e) => {
                let insufficient = e.to_string().contains("insufficient iteration limit");
                if !insufficient {
                    rec.fail("batched-error", format!("budget {k}: batched authorization fails with `{e}` on validated policies and conformant data\n{}", c.render()));
                    return;
                }
                if let Some((k0, d)) = first_ok {
                    rec.fail("batched-not-monotone", format!("budget {k0} gave {d:?} but the larger budget {k} reports insufficient iterations\n{}", c.render()));
                    return;
                }
                if k == n + 1 {
                    rec.fail("batched-budget-bound", format!("budget {k} exceeds the number of distinct entity ids ({n}) in store, request and policies, yet the iterations are reported insufficient\n{}", c.render()));
                    return;
                }
            }
        }
    }
    if let Some((k0, _)) = first_ok {
        rec.label(format!("first-decision-at-budget:{}", k0.min(4)));
    }
    rec.label_if(max_rounds >= 2, "loader-rounds>=2");
    rec.label_if(absent, "absent-entity-requested");
    rec.label_if(superset, "superset-loader");
    rec.nontrivial = max_rounds >= 2;
    let _ = bridge::euid;
}

pub fn property() -> Property {
    Property {
        id: "C15",
        rule: "C16's generator (chain-biased schema, strictly valid policies, dense conformant store with dangling references, conformant request). For every budget k in 0..=n+1 (n = distinct entity ids in store, request and policies), \
               with the library's TestEntityLoader and with a harness loader returning supersets of what is requested: Ok(d) must equal ordinary authorization; the only admissible error is `insufficient iterations`; \
               once a budget yields a decision every larger budget yields it too; budget n+1 always yields a decision. Non-trivial = the loader was asked in >=2 rounds (entity chains).",
        assumptions: &["World-S conformance", "loader contract: returns exactly the store's data (plus extras)"],
        subs: vec![SubCheck { name: "batched", cases: (200_000, 4_000_000), tape_len: 4000, run: case, min_labels: &[("loader-rounds>=2", 12_000), ("first-decision-at-budget:3", 800), ("absent-entity-requested", 40_000), ("superset-loader", 60_000)] }],
    }
}
