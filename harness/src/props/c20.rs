//! C20 — no panics: every entry point returns Ok or Err on arbitrary input, and rendering errors does not panic.
//!
//! Every case runs inside the engine's `guarded` (catch_unwind); a panic anywhere below is a violation whose
//! signature is the panic location.

use crate::bridge;
use crate::emit::schema as semit;
use crate::emit::{policy as pemit, text};
use crate::engine::{Property, Rec, SubCheck};
use crate::gen::s::{self, SchemaOpts};
use crate::gen::u;
use crate::props::c05::gen_ref_policy;
use crate::props::scase;
use crate::refmodel::*;
use crate::tape::Tape;
use cedar_policy::ffi;
use cedar_policy::proto::traits::Protobuf;
use cedar_policy::{
    Authorizer, Context, Entities, Entity, EntityUid, Expression, Policy, PolicyId, PolicySet, Request, RestrictedExpression, Schema, SchemaFragment, SlotId, Template, ValidationMode, Validator,
};
use serde_json::{json, Value as J};
use std::collections::HashMap;
use std::str::FromStr;

/// Render an error every way a user can: Display, Debug, miette graphical report (labels + source), help, JSON-able detail.
pub fn render_err<E: miette::Diagnostic + Send + Sync + 'static>(e: E) {
    let _ = e.to_string();
    let _ = format!("{e:?}");
    let _ = e.help().map(|h| h.to_string());
    let _ = e.code().map(|h| h.to_string());
    if let Some(ls) = e.labels() {
        for l in ls {
            let _ = (l.label().map(|s| s.to_string()), l.offset(), l.len());
        }
    }
    let report = miette::Report::new(e);
    let _ = format!("{report:?}");
    let _ = format!("{report}");
    let mut out = String::new();
    let _ = miette::GraphicalReportHandler::new().render_report(&mut out, report.as_ref());
    let mut out2 = String::new();
    let _ = miette::JSONReportHandler::new().render_report(&mut out2, report.as_ref());
    let _: ffi::DetailedError = report.into();
}

fn render_plain<E: std::fmt::Display + std::fmt::Debug>(e: &E) {
    let _ = e.to_string();
    let _ = format!("{e:?}");
}

// ---------------------------------------------------------------------------------------------
// input generators

const POLICY_TOKENS: [&str; 67] = [
    "permit", "forbid", "when", "unless", "principal", "action", "resource", "context", "(", ")", "{", "}", "[", "]", ",", ";", ".", "::", "==", "!=", "<", "<=", ">", ">=", "&&", "||", "!", "-", "+", "*", "in", "is", "has", "like", "if", "then", "else", "true",
    "false", "?principal", "?resource", "@id", "\"s\"", "\"a*\\*\"", "\"\\u{1F600}\"", "0", "1", "9223372036854775807", "9223372036854775808", "A", "NS::B", "A::\"a\"", "Action::\"view\"", "ip", "decimal", "datetime", "\"10.0.0.1/8\"", "contains", "containsAll",
    "isEmpty", "getTag", "hasTag", "//c\n", "\"unterminated", "\"caf\\é*\"", "\"\\\u{1F600}\"", "\"\\x7\"",
];

const SCHEMA_TOKENS: [&str; 40] = [
    "namespace", "entity", "action", "type", "in", "enum", "tags", "appliesTo", "principal", "resource", "context", "Set", "<", ">", "{", "}", "[", "]", "(", ")", ",", ";", ":", "::", "=", "?", "Long", "String", "Bool", "User", "Group", "NS", "\"a b\"",
    "\"\"", "@doc", "(\"x\")", "ipaddr", "decimal", "__cedar", "//c\n",
];

fn token_soup(t: &mut Tape, toks: &[&str], max: usize) -> String {
    let n = t.upto(max + 1);
    let mut out = String::new();
    let mut stack: Vec<&str> = Vec::new();
    for _ in 0..n {
        // bracket bias: close an open bracket now and then
        if !stack.is_empty() && t.bool_p(1, 5) {
            out.push_str(stack.pop().unwrap());
            out.push(' ');
            continue;
        }
        let tok = toks[t.upto(toks.len())];
        match tok {
            "(" if stack.len() < 40 => stack.push(")"),
            "{" if stack.len() < 40 => stack.push("}"),
            "[" if stack.len() < 40 => stack.push("]"),
            "(" | "{" | "[" => continue,
            _ => {}
        }
        out.push_str(tok);
        out.push(if t.bool_p(1, 8) { '\n' } else { ' ' });
    }
    while let Some(c) = stack.pop() {
        if t.bool_p(7, 8) {
            out.push_str(c);
        }
    }
    out
}

fn raw_string(t: &mut Tape, max: usize) -> String {
    let n = t.upto(max + 1);
    let alphabet: Vec<char> = " \n\t\"\\'{}[]()<>=!&|+-*/.,;:@?_0123456789abAZ\u{0}\u{7f}\u{80}\u{301}\u{2028}\u{1F600}\u{FEFF}".chars().collect();
    (0..n).map(|_| if t.bool_p(1, 12) { char::from_u32(t.below(0x11_0000)).unwrap_or('\u{FFFD}') } else { alphabet[t.upto(alphabet.len())] }).collect()
}

/// k text-level mutations of a valid document
fn mutate_text(t: &mut Tape, s: &str) -> String {
    let mut cs: Vec<char> = s.chars().collect();
    // 0 edits keeps the document valid (drives the pipelines behind the parsers)
    let k = t.weighted(&[3, 5, 2, 1, 1]);
    for _ in 0..k {
        if cs.is_empty() {
            break;
        }
        let i = t.upto(cs.len());
        match t.upto(9) {
            8 => {
                // an escape sequence (valid or not, followed by ASCII or multi-byte text) inside a string literal or pattern
                let mut inside = Vec::new();
                let (mut open, mut esc) = (false, false);
                for (ix, c) in cs.iter().enumerate() {
                    if open && !esc && *c != '"' {
                        inside.push(ix);
                    }
                    if esc {
                        esc = false;
                    } else if *c == '\\' {
                        esc = true;
                    } else if *c == '"' {
                        open = !open;
                    }
                }
                let chunk: Vec<char> = t.pick(&["\\é", "\\\u{1F600}", "\\*", "\\u{1F600}", "\\u{110000}", "\\u{", "\\x", "\\x7", "\\xé", "\\0é", "\\\u{301}", "*é", "\\", "\\u{0}"]).chars().collect();
                if inside.is_empty() {
                    let lit: Vec<char> = format!(" \"caf{}*\" ", chunk.iter().collect::<String>()).chars().collect();
                    for (o, c) in lit.into_iter().enumerate() {
                        cs.insert((i + o).min(cs.len()), c);
                    }
                } else {
                    let at = inside[t.upto(inside.len())];
                    for (o, c) in chunk.into_iter().enumerate() {
                        cs.insert((at + o).min(cs.len()), c);
                    }
                }
            }
            0 => {
                cs.remove(i);
            }
            1 => {
                let c = cs[i];
                cs.insert(i, c);
            }
            2 => {
                let j = t.upto(cs.len());
                cs.swap(i, j);
            }
            3 => cs.truncate(i),
            4 => {
                // flip a bracket / operator character
                cs[i] = *t.pick(&['(', ')', '{', '}', '[', ']', '"', '\\', ',', ';', ':', '.', '-', '!', '?', '@', '*', '/']);
            }
            5 => {
                // splice a chunk from elsewhere
                let j = t.upto(cs.len());
                let len = t.upto(12).min(cs.len() - j);
                let chunk: Vec<char> = cs[j..j + len].to_vec();
                for (o, c) in chunk.into_iter().enumerate() {
                    cs.insert((i + o).min(cs.len()), c);
                }
            }
            6 => {
                // boundary number
                let lit: Vec<char> = t.pick(&["9223372036854775807", "9223372036854775808", "-9223372036854775808", "0", "00", "1e9", "1.5", "18446744073709551616"]).chars().collect();
                for (o, c) in lit.into_iter().enumerate() {
                    cs.insert((i + o).min(cs.len()), c);
                }
            }
            _ => {
                cs[i] = *t.pick(&['\u{0}', '\u{301}', '\u{1F600}', '\u{2028}', '\n', ' ', 'é']);
            }
        }
    }
    cs.into_iter().collect()
}

fn json_depth_ok(v: &J, d: usize) -> bool {
    if d > 48 {
        return false;
    }
    match v {
        J::Array(a) => a.iter().all(|x| json_depth_ok(x, d + 1)),
        J::Object(m) => m.values().all(|x| json_depth_ok(x, d + 1)),
        _ => true,
    }
}

/// a value in the entity/context JSON value format with every escape (`__entity`, `__extn` in the one-argument and the
/// many-argument form with 0..3 arguments and any function name, `__expr`), nested in sets and records
fn gen_value_json(t: &mut Tape, depth: usize) -> J {
    const FNS: [&str; 16] = ["ip", "decimal", "datetime", "duration", "isIpv4", "isInRange", "lessThan", "greaterThanOrEqual", "offset", "durationSince", "toDate", "toTime", "toMilliseconds", "unknown", "foo", ""];
    let leaf = |t: &mut Tape| -> J {
        match t.upto(5) {
            0 => json!(t.range(-3, 3)),
            1 => json!(t.coin()),
            2 => json!(*t.pick(&["", "1.2.3.4/8", "1.5", "2024-01-01", "1h", "x"])),
            3 => json!({"__entity": {"type": *t.pick(&["A", "NS::C", ""]), "id": *t.pick(&["a0", ""])}}),
            _ => json!({"__expr": *t.pick(&["1 + 1", "principal", ""])}),
        }
    };
    if depth == 0 {
        return leaf(t);
    }
    match t.upto(7) {
        0 | 1 => {
            let f = *t.pick(&FNS);
            json!({"__extn": {"fn": f, "arg": gen_value_json(t, depth - 1)}})
        }
        2 | 3 => {
            let f = *t.pick(&FNS);
            let n = t.weighted(&[3, 3, 3, 1]);
            let args: Vec<J> = (0..n).map(|_| gen_value_json(t, depth - 1)).collect();
            json!({"__extn": {"fn": f, "args": args}})
        }
        4 => {
            let n = t.upto(3);
            J::Array((0..n).map(|_| gen_value_json(t, depth - 1)).collect())
        }
        5 => {
            let n = t.upto(3);
            let mut m = serde_json::Map::new();
            for i in 0..n {
                m.insert((*t.pick(&["a", "b", "__extn", "__entity", ""])).to_string() + if i == 0 { "" } else { "2" }, gen_value_json(t, depth - 1));
            }
            J::Object(m)
        }
        _ => leaf(t),
    }
}

/// k structural mutations of a JSON document
fn mutate_json(t: &mut Tape, v: &J) -> J {
    fn paths(v: &J, cur: Vec<String>, out: &mut Vec<Vec<String>>) {
        out.push(cur.clone());
        match v {
            J::Array(a) => a.iter().enumerate().for_each(|(i, x)| {
                let mut c = cur.clone();
                c.push(i.to_string());
                paths(x, c, out)
            }),
            J::Object(m) => m.iter().for_each(|(k, x)| {
                let mut c = cur.clone();
                c.push(k.clone());
                paths(x, c, out)
            }),
            _ => {}
        }
    }
    fn at<'a>(v: &'a mut J, p: &[String]) -> Option<&'a mut J> {
        let mut cur = v;
        for k in p {
            cur = match cur {
                J::Array(a) => a.get_mut(k.parse::<usize>().ok()?)?,
                J::Object(m) => m.get_mut(k)?,
                _ => return None,
            };
        }
        Some(cur)
    }
    let mut out = v.clone();
    let k = t.weighted(&[3, 5, 2, 1]);
    for _ in 0..k {
        let mut ps = Vec::new();
        paths(&out, vec![], &mut ps);
        let p = ps[t.upto(ps.len())].clone();
        let donor = {
            let q = ps[t.upto(ps.len())].clone();
            let mut tmp = out.clone();
            at(&mut tmp, &q).cloned().unwrap_or(J::Null)
        };
        let choice = t.upto(13);
        let fresh = gen_value_json(t, 2);
        if let Some(slot) = at(&mut out, &p) {
            match choice {
                // a literal in the JSON policy format / a value in the entity format, with all escapes
                10 | 11 => *slot = json!({"Value": fresh}),
                12 => *slot = fresh,
                0 => *slot = J::Null,
                1 => *slot = json!(*t.pick(&[0i64, -1, i64::MAX, i64::MIN])),
                2 => *slot = json!(t.pick(&["", "x", "__entity", "A::\"a\"", "1.0", "127.0.0.1/33", "\u{0}", "permit(principal,action,resource);"])),
                3 => *slot = json!([]),
                4 => *slot = json!({}),
                5 => *slot = donor,
                6 => *slot = json!(1.5e300),
                7 => {
                    if let J::Object(m) = slot {
                        if let Some(k0) = m.keys().next().cloned() {
                            if t.coin() {
                                m.remove(&k0);
                            } else {
                                let v0 = m.remove(&k0).unwrap();
                                m.insert(format!("{k0}{}", t.pick(&["", " ", "2", "_"])), v0);
                            }
                        }
                    } else if let J::Array(a) = slot {
                        if !a.is_empty() {
                            let x = a[0].clone();
                            a.push(x);
                        }
                    }
                }
                8 => {
                    let inner = slot.clone();
                    *slot = json!([inner]);
                }
                _ => {
                    let inner = slot.clone();
                    *slot = json!({"__entity": inner});
                }
            }
        }
    }
    out
}

fn input_text(t: &mut Tape, toks: &[&str], valid: &dyn Fn(&mut Tape) -> String) -> (String, &'static str) {
    match t.weighted(&[2, 3, 6]) {
        0 => (raw_string(t, 60), "raw"),
        1 => (token_soup(t, toks, 60), "soup"),
        _ => {
            let v = valid(t);
            (mutate_text(t, &v), "mutated")
        }
    }
}

// ---------------------------------------------------------------------------------------------
// pipelines on objects that parsed

fn small_schema() -> &'static Schema {
    static S: std::sync::OnceLock<Schema> = std::sync::OnceLock::new();
    S.get_or_init(|| {
        Schema::from_cedarschema_str(
            "entity A in [B] {n?: Long, s?: String, flag?: Bool, ref?: A, set?: Set<Long>, rec?: {n?: Long}, d?: decimal, ip?: ipaddr, dt?: datetime, dur?: duration} tags String; entity B; namespace NS { entity C; } \
             action view, edit in [all] appliesTo { principal: [A, B], resource: [A, B, NS::C], context: {n?: Long, s?: String, flag?: Bool} }; action all;",
        )
        .unwrap()
        .0
    })
}

fn pipelines_policy_set(t: &mut Tape, ps: &PolicySet) {
    let _ = ps.to_string();
    let _ = ps.to_cedar();
    match ps.clone().to_json() {
        Ok(j) => {
            if let Err(e) = PolicySet::from_json_value(j) {
                render_err(e);
            }
        }
        Err(e) => render_err(e),
    }
    match ps.to_pst() {
        Ok(p) => {
            if let Err(e) = PolicySet::from_pst(p) {
                render_err(e);
            }
        }
        Err(e) => render_err(e),
    }
    match ps.encode() {
        Ok(buf) => {
            let _ = PolicySet::decode(&buf[..]);
        }
        Err(e) => render_plain(&e),
    }
    for p in ps.policies() {
        let _ = p.to_string();
        let _ = p.to_cedar();
        if let Err(e) = p.to_json() {
            render_err(e);
        }
        let _ = p.annotations().count();
    }
    for tp in ps.templates() {
        let _ = tp.to_string();
        let _ = tp.to_cedar();
        if let Err(e) = tp.to_json() {
            render_err(e);
        }
        // link with fuzzed bindings
        let mut copy = ps.clone();
        let mut vals: HashMap<SlotId, EntityUid> = HashMap::new();
        if t.coin() {
            vals.insert(SlotId::principal(), bridge::euid(&u::gen_uid(t)));
        }
        if t.coin() {
            vals.insert(SlotId::resource(), bridge::euid(&u::gen_uid(t)));
        }
        if let Err(e) = copy.link(tp.id().clone(), PolicyId::new(*t.pick(&["l", "policy0", ""])), vals) {
            render_err(e);
        }
    }
    // validate strict / permissive
    let v = Validator::new(small_schema().clone());
    for mode in [ValidationMode::Strict, ValidationMode::Permissive] {
        let r = v.validate(ps, mode);
        for e in r.validation_errors() {
            render_err(e.clone());
        }
        for w in r.validation_warnings() {
            render_err(w.clone());
        }
        let _ = r.to_string();
    }
    let r = v.validate_with_level(ps, ValidationMode::Strict, t.below(4));
    let _ = r.validation_passed();
    #[allow(deprecated)]
    if let Err(e) = cedar_policy::compute_entity_manifest(&v, ps) {
        render_err(e);
    }
    // authorize with a fuzzed store / request
    let w = u::gen_world(t);
    let rq = u::gen_req(t);
    if let (Ok(ents), Ok(creq)) = (bridge::entities(&w), bridge::request(&rq)) {
        let resp = Authorizer::new().is_authorized(&creq, ps, &ents);
        for e in resp.diagnostics().errors() {
            render_err(e.clone());
        }
        let presp = Authorizer::new().is_authorized_partial(&creq, ps, &ents.clone().partial());
        let _ = presp.decision();
        let _ = ents.to_dot_str();
        let _ = ents.to_json_value();
    }
    // type-aware partial evaluation, permission queries and loader-driven authorization on whatever parsed
    {
        use cedar_policy::{EntityTypeName, PartialEntities, PartialEntityUid, PartialRequest, TestEntityLoader};
        let sch = small_schema();
        let act = EntityUid::from_str(if t.coin() { "Action::\"view\"" } else { "Action::\"edit\"" }).unwrap();
        let p = if t.coin() { PartialEntityUid::new(EntityTypeName::from_str("A").unwrap(), None) } else { PartialEntityUid::from_concrete(EntityUid::from_str("A::\"a0\"").unwrap()) };
        let r = if t.coin() { PartialEntityUid::new(EntityTypeName::from_str("B").unwrap(), None) } else { PartialEntityUid::from_concrete(EntityUid::from_str("B::\"b0\"").unwrap()) };
        if let Ok(preq) = PartialRequest::new(p, act.clone(), r, if t.coin() { Some(Context::empty()) } else { None }, sch) {
            let pents = PartialEntities::empty();
            match ps.tpe(&preq, &pents, sch) {
                Ok(resp) => {
                    let _ = resp.decision();
                    let _ = resp.policies().count();
                    let _ = resp.policy_set();
                    let _ = resp.residual_policies().map(|p| p.to_string()).count();
                }
                Err(e) => render_err(e),
            }
        }
        if let Ok(rq) = Request::new(EntityUid::from_str("A::\"a0\"").unwrap(), act, EntityUid::from_str("B::\"b0\"").unwrap(), Context::empty(), Some(sch)) {
            let ents = Entities::empty();
            let mut loader = TestEntityLoader::new(&ents);
            if let Err(e) = ps.is_authorized_batched(&rq, sch, &mut loader, t.below(4)) {
                let _ = e.to_string();
            }
        }
    }
    // formatter on the printed set
    if let Some(c) = ps.to_cedar() {
        if let Err(e) = cedar_policy_formatter::policies_str_to_pretty(&c, &cedar_policy_formatter::Config { line_width: *t.pick(&[1usize, 20, 80]), indent_width: *t.pick(&[0isize, 2, 7]) }) {
            let _ = format!("{e:?}");
        }
    }
}

// ---------------------------------------------------------------------------------------------
// sub-checks

fn policy_text(t: &mut Tape, rec: &mut Rec<'_>) {
    let (s, kind) = input_text(t, &POLICY_TOKENS, &|t| {
        let n = 1 + t.upto(2);
        (0..n)
            .map(|_| {
                let slots = *t.pick(&[0u8, 0, 1, 2, 3]);
                let p = u::gen_policy(t, slots, 3);
                pemit::policy_text(&p, &mut text::Style::random(t))
            })
            .collect::<Vec<_>>()
            .join("\n")
    });
    rec.label(kind);
    rec.set_key(&s);
    rec.render(|| format!("input ({kind}): {s:?}"));
    rec.nontrivial = true;
    match PolicySet::from_str(&s) {
        Ok(ps) => {
            rec.label("policy-set:accepted");
            pipelines_policy_set(t, &ps);
        }
        Err(e) => render_err(e),
    }
    match Policy::parse(None, &s) {
        Ok(_) => {}
        Err(e) => render_err(e),
    }
    if let Err(e) = Template::parse(Some(PolicyId::new("t")), &s) {
        render_err(e);
    }
    // expression-level entry points on a fragment
    let frag = if s.len() > 8 && t.coin() { s.chars().skip(t.upto(8)).collect::<String>() } else { s.clone() };
    match Expression::from_str(&frag) {
        Ok(e) => {
            rec.label("expression:accepted");
            let _ = e.to_string();
            if let (Ok(ents), Ok(rq)) = (bridge::entities(&u::gen_world(t)), bridge::request(&u::gen_req(t))) {
                if let Err(er) = cedar_policy::eval_expression(&rq, &ents, &e) {
                    render_err(er);
                }
            }
            if let Ok(buf) = e.encode() {
                let _ = Expression::decode(&buf[..]);
            }
        }
        Err(e) => render_err(e),
    }
    if let Err(e) = RestrictedExpression::from_str(&frag) {
        render_err(e);
    }
    if let Err(e) = EntityUid::from_str(&frag) {
        render_err(e);
    }
    if let Err(e) = cedar_policy_formatter::policies_str_to_pretty(&s, &cedar_policy_formatter::Config::default()) {
        let _ = format!("{e:?}");
    }
    let _ = cedar_policy::confusable_string_checker(std::iter::once(&Template::parse(None, "permit(principal == ?principal,action,resource);").unwrap())).count();
    let _ = ffi::policy_set_text_to_parts(&s);
}

fn schema_text(t: &mut Tape, rec: &mut Rec<'_>) {
    let as_json = t.coin();
    // valid documents with everything the syntaxes offer: common types, annotations, names shadowing built-ins
    let rich = |t: &mut Tape, as_json: bool| -> String {
        let rs = s::gen_schema(t, &SchemaOpts { multi_ns: true, shadow: true, ..SchemaOpts::default() });
        let commons = crate::props::c09::gen_commons(t, &rs);
        let salt = t.upto(1 << 16) as u32;
        semit::with_annotations(salt, || semit::with_commons(&commons, || if as_json { semit::schema_json(&rs, Some(t)).to_string() } else { semit::schema_cedar(&rs, Some(t)) }))
    };
    let valid = |t: &mut Tape| rich(t, as_json);
    let (s, kind) = if as_json && t.bool_p(2, 3) {
        let doc: J = serde_json::from_str(&rich(t, true)).unwrap_or(J::Null);
        let m = mutate_json(t, &doc);
        (if json_depth_ok(&m, 0) { m.to_string() } else { "{}".to_string() }, "mutated-json")
    } else {
        input_text(t, &SCHEMA_TOKENS, &valid)
    };
    rec.label(kind);
    rec.set_key(&s);
    rec.render(|| format!("schema input ({kind}, json={as_json}): {s:?}"));
    rec.nontrivial = true;
    let frag = if as_json { SchemaFragment::from_json_str(&s).map_err(|e| render_err(e)).ok() } else { SchemaFragment::from_cedarschema_str(&s).map(|x| x.0).map_err(|e| render_err(e)).ok() };
    if let Some(f) = frag {
        rec.label("schema:fragment-accepted");
        match f.to_cedarschema() {
            Ok(txt) => {
                if let Err(e) = Schema::from_cedarschema_str(&txt) {
                    render_err(e);
                }
            }
            Err(e) => render_err(e),
        }
        match f.clone().to_json_value() {
            Ok(j) => {
                if let Err(e) = Schema::from_json_value(j) {
                    render_err(e);
                }
            }
            Err(e) => render_err(e),
        }
        let _ = f.namespaces().count();
        match Schema::from_schema_fragments([f]) {
            Ok(sch) => {
                rec.label("schema:accepted");
                let _ = sch.action_entities();
                let _ = sch.request_envs().count();
                let _ = sch.principals().count();
                if let Ok(buf) = sch.encode() {
                    let _ = Schema::decode(&buf[..]);
                }
                // use it: validate a policy, load entities
                let ps = PolicySet::from_str("permit(principal, action, resource) when { principal has name && principal.name == resource };").unwrap();
                let r = Validator::new(sch.clone()).validate(&ps, ValidationMode::Strict);
                for e in r.validation_errors() {
                    render_err(e.clone());
                }
                if let Err(e) = Entities::from_json_value(json!([{"uid": {"type": "User", "id": "a"}, "attrs": {"name": 1}, "parents": []}]), Some(&sch)) {
                    render_err(e);
                }
            }
            Err(e) => render_err(e),
        }
    }
    let _ = ffi::schema_to_json_with_resolved_types(&s);
    let _ = cedar_policy::schema_str_to_json_with_resolved_types(&s).map_err(|e| format!("{e:?}"));
}

fn json_inputs(t: &mut Tape, rec: &mut Rec<'_>) {
    let which = t.upto(6);
    let with_schema = t.coin();
    let schema = if with_schema { Some(small_schema()) } else { None };
    let doc: J = match which {
        0 | 1 => {
            let w = u::gen_world(t);
            semit::entities_json_explicit(&w)
        }
        2 => semit::value_json_explicit(&V::Rec(u::gen_req(t).context)),
        3 => {
            let slots = *t.pick(&[0u8, 0, 3]);
            pemit::policy_json(&u::gen_policy(t, slots, 3))
        }
        4 => {
            let p1 = pemit::policy_json(&u::gen_policy(t, 0, 2));
            let p2 = pemit::policy_json(&u::gen_policy(t, 1, 2));
            json!({"staticPolicies": {"p1": p1}, "templates": {"t": p2}, "templateLinks": [{"templateId": "t", "newId": "l", "values": {"?principal": {"type": "A", "id": "a0"}}}]})
        }
        _ => {
            // an FFI authorization call
            let w = u::gen_world(t);
            let r = u::gen_req(t);
            json!({
                "principal": {"type": r.principal.ty, "id": r.principal.id}, "action": {"type": r.action.ty, "id": r.action.id}, "resource": {"type": r.resource.ty, "id": r.resource.id},
                "context": semit::value_json_explicit(&V::Rec(r.context.clone())),
                "policies": {"staticPolicies": pemit::policy_text(&u::gen_policy(t, 0, 2), &mut text::Style::canonical())},
                "entities": semit::entities_json_explicit(&w),
            })
        }
    };
    let (s, kind): (String, &'static str) = match t.weighted(&[1, 5, 3]) {
        0 => (raw_string(t, 50), "raw"),
        1 => {
            let m = mutate_json(t, &doc);
            (if json_depth_ok(&m, 0) { m.to_string() } else { doc.to_string() }, "mutated-json")
        }
        _ => (mutate_text(t, &doc.to_string()), "mutated-text"),
    };
    rec.label(kind);
    rec.label(format!("doc:{which}"));
    rec.set_key(&s);
    rec.render(|| format!("json input (doc kind {which}, {kind}, schema={with_schema}): {s}"));
    rec.nontrivial = true;
    match Entities::from_json_str(&s, schema) {
        Ok(e) => {
            rec.label("entities:accepted");
            let _ = e.to_json_value().map_err(|x| render_err(x));
            let _ = e.to_dot_str();
            if let Ok(buf) = e.encode() {
                let _ = Entities::decode(&buf[..]);
            }
            if let Err(x) = Entities::empty().add_entities_from_json_str(&s, schema) {
                render_err(x);
            }
        }
        Err(e) => render_err(e),
    }
    if let Err(e) = Entity::from_json_str(&s, schema) {
        render_err(e);
    }
    let act = EntityUid::from_str("Action::\"view\"").unwrap();
    match Context::from_json_str(&s, schema.map(|sc| (sc, &act))) {
        Ok(c) => {
            let _ = c.to_json_value().map_err(|x| render_err(x));
            if let Some(sc) = schema {
                if let Err(e) = c.validate(sc, &act) {
                    render_err(e);
                }
                if let Err(e) = Request::new(EntityUid::from_str("A::\"a0\"").unwrap(), act.clone(), EntityUid::from_str("B::\"b0\"").unwrap(), c, Some(sc)) {
                    render_err(e);
                }
            }
        }
        Err(e) => render_err(e),
    }
    if let Ok(v) = serde_json::from_str::<J>(&s) {
        match Policy::from_json(None, v.clone()) {
            Ok(p) => {
                rec.label("json-policy:accepted");
                let _ = p.to_cedar();
                if let Ok(ps) = PolicySet::from_policies([p]) {
                    pipelines_policy_set(t, &ps);
                }
            }
            Err(e) => render_err(e),
        }
        if let Err(e) = Template::from_json(None, v.clone()) {
            render_err(e);
        }
        match PolicySet::from_json_value(v.clone()) {
            Ok(ps) => {
                rec.label("json-policy-set:accepted");
                pipelines_policy_set(t, &ps);
            }
            Err(e) => render_err(e),
        }
        if let Err(e) = EntityUid::from_json(v.clone()) {
            render_err(e);
        }
        if let Err(e) = Schema::from_json_value(v) {
            render_err(e);
        }
    }
    // the JSON interface used by the language bindings
    let _ = ffi::is_authorized_json_str(&s);
    let _ = ffi::is_authorized_partial_json_str(&s);
    let _ = ffi::validate_json_str(&s);
    let _ = ffi::format_json_str(&s);
    let _ = ffi::check_parse_policy_set_json_str(&s);
    let _ = ffi::check_parse_schema_json_str(&s);
    let _ = ffi::check_parse_entities_json_str(&s);
    let _ = ffi::check_parse_context_json_str(&s);
    // typed calls with the document placed in the right slot
    if let Ok(v) = serde_json::from_str::<J>(&s) {
        let _ = ffi::is_authorized_json(json!({"principal": {"type": "A", "id": "a0"}, "action": {"type": "Action", "id": "view"}, "resource": {"type": "B", "id": "b0"}, "context": if which == 2 { v.clone() } else { json!({}) },
            "policies": if which == 4 { v.clone() } else { json!({"staticPolicies": "permit(principal,action,resource);"}) }, "entities": if which <= 1 { v.clone() } else { json!([]) }}));
        let _ = ffi::validate_json(json!({"schema": "entity A, B;", "policies": if which == 4 { v.clone() } else if which == 3 { json!({"staticPolicies": [v.clone()]}) } else { json!({"staticPolicies": ""}) }}));
        let _ = ffi::check_parse_entities_json(json!({"entities": v.clone(), "schema": "entity A, B;"}));
        if which == 3 {
            let _ = serde_json::from_value::<ffi::Policy>(v.clone()).map(ffi::policy_to_text);
        }
    }
}

fn proto_bytes(t: &mut Tape, rec: &mut Rec<'_>) {
    // start from a valid encoding (or nothing) and mutate bytes
    let base: Vec<u8> = match t.upto(5) {
        0 => vec![],
        1 => {
            let p = gen_ref_policy(t, rec);
            let txt = pemit::policy_text(&p, &mut text::Style::canonical());
            PolicySet::from_str(&txt).ok().and_then(|ps| ps.encode().ok()).unwrap_or_default()
        }
        2 => bridge::entities(&u::gen_world(t)).ok().and_then(|e| e.encode().ok()).unwrap_or_default(),
        3 => {
            let e = u::gen_expr(t, 3, u::K::Bool);
            Expression::from_str(&text::expr(&e, &mut text::Style::canonical())).ok().and_then(|x| x.encode().ok()).unwrap_or_default()
        }
        _ => {
            let rs = s::gen_schema(t, &SchemaOpts::default());
            scase::build_schema(&rs).ok().and_then(|sc| sc.encode().ok()).unwrap_or_default()
        }
    };
    let mut b = base.clone();
    let k = t.upto(6);
    for _ in 0..k {
        if b.is_empty() || t.bool_p(1, 5) {
            b.push(t.below(256) as u8);
        } else {
            let i = t.upto(b.len());
            match t.upto(4) {
                0 => b[i] = t.below(256) as u8,
                1 => {
                    b.remove(i);
                }
                2 => b.truncate(i),
                _ => b[i] ^= 1 << t.below(8),
            }
        }
    }
    rec.set_key(&b);
    rec.render(|| format!("protobuf bytes: {b:?}"));
    rec.nontrivial = true;
    macro_rules! dec {
        ($ty:ty, $lab:expr) => {
            match <$ty>::decode(&b[..]) {
                Ok(x) => {
                    rec.label($lab);
                    let _ = x.encode();
                }
                Err(e) => render_plain(&e),
            }
        };
    }
    dec!(PolicySet, "decoded:policy-set");
    dec!(Template, "decoded:template");
    dec!(Expression, "decoded:expression");
    dec!(Entities, "decoded:entities");
    dec!(Entity, "decoded:entity");
    dec!(Schema, "decoded:schema");
    dec!(Request, "decoded:request");
    if let Ok(ps) = PolicySet::decode(&b[..]) {
        pipelines_policy_set(t, &ps);
    }
}

pub fn property() -> Property {
    Property {
        id: "C20",
        rule: "Inputs from three generators — raw character strings (incl. NUL, combining marks, non-BMP, U+2028, BOM), token soups from each grammar's token set with balanced-bracket bias (<=60 tokens, nesting <=40), and structure-aware mutations (1-4 edits: delete / duplicate / swap / truncate / bracket flip / splice / boundary number / odd character; for JSON also structural edits: retype, rename or drop keys, wrap, graft subtrees) of valid documents produced by the other properties' emitters — \
               are fed to every entry point under catch_unwind: policy / template / policy-set / expression / restricted-expression / uid text, both schema syntaxes, entities / entity / context JSON (with and without schema), JSON policies and policy sets, protobuf decoding of all seven types, all ffi::*_json(_str) functions, the formatter; \
               every object that parses goes on to printing, to_json, to_pst, protobuf encode/decode, format, strict / permissive / level validation, entity-manifest computation, authorization and partial authorization with generated stores, linking with fuzzed bindings, to_dot_str; every error and warning is rendered (Display, Debug, help, labels, graphical and JSON miette reports, DetailedError). \
               A panic anywhere is a violation (signature = panic location); a case exceeding the watchdog is reported as HANG (inconclusive).",
        assumptions: &["nesting depth <= 48 by construction", "termination is observed with a 120 s per-case watchdog"],
        subs: vec![
            SubCheck { name: "policy-text", cases: (150_000, 3_000_000), tape_len: 1200, run: policy_text, min_labels: &[("policy-set:accepted", 15_000), ("expression:accepted", 300), ("soup", 25_000), ("mutated", 50_000)] },
            SubCheck { name: "schema", cases: (90_000, 2_000_000), tape_len: 2500, run: schema_text, min_labels: &[("schema:accepted", 10_000), ("schema:fragment-accepted", 12_000)] },
            SubCheck { name: "json", cases: (100_000, 2_000_000), tape_len: 2500, run: json_inputs, min_labels: &[("entities:accepted", 5000), ("json-policy:accepted", 3000), ("json-policy-set:accepted", 2000)] },
            SubCheck { name: "protobuf", cases: (90_000, 2_000_000), tape_len: 1200, run: proto_bytes, min_labels: &[("decoded:policy-set", 6000), ("decoded:entities", 6000), ("decoded:expression", 3000)] },
        ],
    }
}
