//! C06 — structured policy formats (JSON/EST, PST, protobuf) are lossless.

use crate::bridge;
use crate::emit::{policy as pemit, text};
use crate::engine::{Property, Rec, SubCheck};
use crate::gen::u;
use crate::props::c01::{self, GP};
use crate::props::c05::gen_ref_policy;
use crate::refmodel::{self as rm};
use crate::tape::Tape;
use cedar_policy::proto::traits::Protobuf;
use cedar_policy::{Authorizer, Expression, Policy, PolicyId, PolicySet, Template};
use cedar_policy_core::{ast, est};
use std::collections::BTreeSet;
use std::str::FromStr;

fn fail_rt(rec: &mut Rec<'_>, sig: &str, what: &str, e: String, txt: &str) {
    rec.fail(sig, format!("{what}: {e}\npolicy: {txt}"));
}

fn single(t: &mut Tape, rec: &mut Rec<'_>) {
    let p = gen_ref_policy(t, rec);
    let txt = pemit::policy_text(&p, &mut text::Style::random(t));
    let id = PolicyId::new(*t.pick(&c01::ID_POOL));
    let maxdepth = p.conds.iter().map(|(_, e)| e.depth()).max().unwrap_or(0);
    rec.nontrivial = maxdepth >= 3;
    rec.label_if(p.is_template(), "template");
    rec.set_key(&txt);
    rec.render(|| format!("id={id:?}\n{txt}"));
    // the text-born object and its core AST
    let (core_t, json, pst_back, json_born): (ast::Template, Result<serde_json::Value, String>, Result<ast::Template, String>, Result<ast::Template, String>);
    let j_ref = pemit::policy_json(&p);
    if p.is_template() {
        let tp = match Template::parse(Some(id.clone()), &txt) {
            Ok(x) => x,
            Err(e) => {
                rec.fail("generated-text-rejected", format!("{txt}\n{e}"));
                return;
            }
        };
        core_t = tp.as_ref().clone();
        json = tp.to_json().map_err(|e| e.to_string());
        pst_back = tp.to_pst().map_err(|e| format!("to_pst: {e}")).and_then(|x| Template::from_pst(x).map_err(|e| format!("from_pst: {e}"))).map(|x| x.as_ref().clone());
        json_born = Template::from_json(Some(id.clone()), j_ref.clone()).map(|x| x.as_ref().clone()).map_err(|e| e.to_string());
        // protobuf (Template)
        match tp.encode() {
            Ok(buf) => match Template::decode(&buf[..]) {
                Ok(back) => {
                    if let Err(e) = bridge::templates_equal(&core_t, back.as_ref()) {
                        fail_rt(rec, "proto-template", "decode(encode(template)) differs", e, &txt);
                        return;
                    }
                    if back.id() != &id {
                        fail_rt(rec, "proto-template-id", "template id changed", format!("{:?} -> {:?}", id, back.id()), &txt);
                        return;
                    }
                }
                Err(e) => {
                    fail_rt(rec, "proto-template", "decode of an encoded template failed", e.to_string(), &txt);
                    return;
                }
            },
            Err(e) => {
                rec.label(format!("proto-encode-error:{e}"));
            }
        }
    } else {
        let pp = match Policy::parse(Some(id.clone()), &txt) {
            Ok(x) => x,
            Err(e) => {
                rec.fail("generated-text-rejected", format!("{txt}\n{e}"));
                return;
            }
        };
        core_t = pp.as_ref().template().clone();
        json = pp.to_json().map_err(|e| e.to_string());
        pst_back = pp.to_pst().map_err(|e| format!("to_pst: {e}")).and_then(|x| Policy::from_pst(x).map_err(|e| format!("from_pst: {e}"))).map(|x| x.as_ref().template().clone());
        json_born = Policy::from_json(Some(id.clone()), j_ref.clone()).map(|x| x.as_ref().template().clone()).map_err(|e| e.to_string());
    }
    // R1/R2: CST->EST (to_json of a text-born object) converts back to an equal object
    let json = match json {
        Ok(j) => j,
        Err(e) => {
            fail_rt(rec, "to_json-failed", "to_json failed on a parsed policy", e, &txt);
            return;
        }
    };
    rec.render(|| format!("to_json: {json}"));
    let back = if p.is_template() {
        Template::from_json(Some(id.clone()), json.clone()).map(|x| x.as_ref().clone()).map_err(|e| e.to_string())
    } else {
        Policy::from_json(Some(id.clone()), json.clone()).map(|x| x.as_ref().template().clone()).map_err(|e| e.to_string())
    };
    match back {
        Ok(b) => {
            if let Err(e) = bridge::templates_equal(&core_t, &b) {
                fail_rt(rec, "json-roundtrip", &format!("from_json(to_json(p)) differs; json={json}"), e, &txt);
                return;
            }
            if let Err(e) = bridge::template_matches(&b, &p) {
                fail_rt(rec, "json-roundtrip-vs-reference", &format!("json={json}"), e, &txt);
                return;
            }
            if b.id() != core_t.id() {
                fail_rt(rec, "json-roundtrip-id", "id changed", format!("{} -> {}", core_t.id(), b.id()), &txt);
                return;
            }
        }
        Err(e) => {
            fail_rt(rec, "json-roundtrip", &format!("from_json rejected the output of to_json: {json}"), e, &txt);
            return;
        }
    }
    // R2: AST->EST (the other producer of JSON) converts back to an equal object
    let est_from_ast: est::Policy = core_t.clone().into();
    match est_from_ast.clone().try_into_ast_policy_or_template(Some(core_t.id().clone())) {
        Ok(b) => {
            if let Err(e) = bridge::templates_equal(&core_t, &b) {
                fail_rt(rec, "ast-est-roundtrip", &format!("AST->EST->AST differs; est={}", serde_json::to_string(&est_from_ast).unwrap_or_default()), e, &txt);
                return;
            }
        }
        Err(e) => {
            fail_rt(rec, "ast-est-roundtrip", "AST->EST->AST failed", e.to_string(), &txt);
            return;
        }
    }
    // R3: PST. The PST is arity-checked by construction (documented `WrongArity` construction error), so a
    // policy holding a wrong-arity extension call has no PST; conversion failure is then expected, not a loss.
    let arity_err = p.conds.iter().any(|(_, e)| e.has_arity_error());
    rec.label_if(arity_err, "pst-skip-arity");
    match pst_back {
        Err(_) if arity_err => {}
        Ok(b) => {
            if let Err(e) = bridge::templates_equal(&core_t, &b) {
                fail_rt(rec, "pst-roundtrip", "from_pst(to_pst(p)) differs", e, &txt);
                return;
            }
            if let Err(e) = bridge::template_matches(&b, &p) {
                fail_rt(rec, "pst-roundtrip-vs-reference", "", e, &txt);
                return;
            }
            if b.id() != core_t.id() {
                fail_rt(rec, "pst-roundtrip-id", "id changed", format!("{} -> {}", core_t.id(), b.id()), &txt);
                return;
            }
        }
        Err(e) => {
            fail_rt(rec, "pst-roundtrip", "PST conversion failed on a parsed policy", e, &txt);
            return;
        }
    }
    // R5 (structure part): a JSON policy written by hand denotes the same object as the text
    match json_born {
        Ok(b) => {
            if let Err(e) = bridge::template_matches(&b, &p) {
                fail_rt(rec, "json-born-structure", &format!("json={j_ref}"), e, &txt);
                return;
            }
            if let Err(e) = bridge::templates_equal(&core_t, &b) {
                fail_rt(rec, "json-born-vs-text-born", &format!("json={j_ref}"), e, &txt);
                return;
            }
        }
        Err(e) => {
            rec.fail("generated-json-rejected", format!("{j_ref}\n{e}"));
            return;
        }
    }
    // R3b: the conversion used depends on how the object was born (text / JSON / PST keep their own lossless form):
    //   JSON-born --to_pst--> (EST->PST)   and   PST-born --to_json--> (PST->EST), --to_cedar--> printer
    if !arity_err {
        let check_tpl = |what: &str, got: Result<ast::Template, String>, rec: &mut Rec<'_>| match got {
            Ok(b) => {
                if let Err(e) = bridge::template_matches(&b, &p) {
                    rec.fail(format!("{what}-vs-reference"), format!("{what}: {e}\npolicy: {txt}"));
                } else if let Err(e) = bridge::templates_equal(&core_t, &b) {
                    rec.fail(format!("{what}-vs-text-born"), format!("{what}: {e}\npolicy: {txt}"));
                }
            }
            Err(e) => {
                rec.fail(format!("{what}-failed"), format!("{what}: {e}\npolicy: {txt}"));
            }
        };
        if p.is_template() {
            let jb = Template::from_json(Some(id.clone()), j_ref.clone()).map_err(|e| e.to_string());
            check_tpl("json-born.to_pst", jb.clone().and_then(|x| x.to_pst().map_err(|e| e.to_string())).and_then(|x| Template::from_pst(x).map_err(|e| e.to_string())).map(|x| x.as_ref().clone()), rec);
            let pb = Template::parse(Some(id.clone()), &txt).map_err(|e| e.to_string()).and_then(|x| x.to_pst().map_err(|e| e.to_string())).and_then(|x| Template::from_pst(x).map_err(|e| e.to_string()));
            check_tpl("pst-born.to_json", pb.clone().and_then(|x| x.to_json().map_err(|e| e.to_string())).and_then(|j| Template::from_json(Some(id.clone()), j).map_err(|e| e.to_string())).map(|x| x.as_ref().clone()), rec);
            check_tpl("pst-born.to_cedar", pb.and_then(|x| Template::parse(Some(id.clone()), x.to_cedar()).map_err(|e| e.to_string())).map(|x| x.as_ref().clone()), rec);
        } else {
            let jb = Policy::from_json(Some(id.clone()), j_ref.clone()).map_err(|e| e.to_string());
            check_tpl("json-born.to_pst", jb.clone().and_then(|x| x.to_pst().map_err(|e| e.to_string())).and_then(|x| Policy::from_pst(x).map_err(|e| e.to_string())).map(|x| x.as_ref().template().clone()), rec);
            let pb = Policy::parse(Some(id.clone()), &txt).map_err(|e| e.to_string()).and_then(|x| x.to_pst().map_err(|e| e.to_string())).and_then(|x| Policy::from_pst(x).map_err(|e| e.to_string()));
            check_tpl("pst-born.to_json", pb.clone().and_then(|x| x.to_json().map_err(|e| e.to_string())).and_then(|j| Policy::from_json(Some(id.clone()), j).map_err(|e| e.to_string())).map(|x| x.as_ref().template().clone()), rec);
            check_tpl("pst-born.to_cedar", pb.and_then(|x| x.to_cedar().ok_or_else(|| "to_cedar() is None".to_string())).and_then(|c| Policy::parse(Some(id.clone()), c).map_err(|e| e.to_string())).map(|x| x.as_ref().template().clone()), rec);
        }
        if rec.failed() {
            return;
        }
    }
    // R4: protobuf Expression
    if let Some((_, body)) = p.conds.first() {
        let etxt = text::expr(body, &mut text::Style::canonical());
        if let Ok(ex) = Expression::from_str(&etxt) {
            match ex.encode() {
                Ok(buf) => match Expression::decode(&buf[..]) {
                    Ok(back) => {
                        let (a, b2) = (ast::Expr::from_str(&etxt).unwrap(), ast::Expr::from_str(&back.to_string()));
                        let same = b2.as_ref().map(|b2| a.eq_shape(b2)).unwrap_or(false) && bridge::expr_matches(b2.as_ref().unwrap(), &body.desugar().fold_bool_lits()).is_ok();
                        if !same {
                            rec.fail("proto-expression", format!("decode(encode(e)) differs: `{etxt}` came back as `{back}`"));
                        }
                    }
                    Err(e) => {
                        rec.fail("proto-expression", format!("decode of an encoded expression failed: {e}\n{etxt}"));
                    }
                },
                Err(e) => rec.label(format!("proto-encode-error:{e}")),
            }
        }
    }
}

/// per-id comparison of two public policy sets (PolicySet `==` is insertion-order sensitive)
pub fn sets_equal(a: &PolicySet, b: &PolicySet) -> Result<(), String> {
    let ta: BTreeSet<String> = a.templates().map(|t| t.id().to_string()).collect();
    let tb: BTreeSet<String> = b.templates().map(|t| t.id().to_string()).collect();
    if ta != tb {
        return Err(format!("template ids differ: {ta:?} vs {tb:?}"));
    }
    let pa: BTreeSet<String> = a.policies().map(|p| p.id().to_string()).collect();
    let pb: BTreeSet<String> = b.policies().map(|p| p.id().to_string()).collect();
    if pa != pb {
        return Err(format!("policy ids differ: {pa:?} vs {pb:?}"));
    }
    for t in a.templates() {
        let o = b.template(t.id()).ok_or("template lookup failed")?;
        bridge::templates_equal(t.as_ref(), o.as_ref()).map_err(|e| format!("template {}: {e}", t.id()))?;
    }
    for p in a.policies() {
        let o = b.policy(p.id()).ok_or("policy lookup failed")?;
        if p.is_static() != o.is_static() {
            return Err(format!("policy {}: static-ness differs", p.id()));
        }
        if p.template_id() != o.template_id() {
            return Err(format!("policy {}: template id {:?} vs {:?}", p.id(), p.template_id(), o.template_id()));
        }
        if p.template_links() != o.template_links() {
            return Err(format!("policy {}: link bindings {:?} vs {:?}", p.id(), p.template_links(), o.template_links()));
        }
        if p.effect() != o.effect() {
            return Err(format!("policy {}: effect differs", p.id()));
        }
        let an = |x: &Policy| x.annotations().map(|(k, v)| (k.to_string(), v.to_string())).collect::<BTreeSet<_>>();
        if an(p) != an(o) {
            return Err(format!("policy {}: annotations {:?} vs {:?}", p.id(), an(p), an(o)));
        }
        bridge::templates_equal(p.as_ref().template(), o.as_ref().template()).map_err(|e| format!("policy {}: {e}", p.id()))?;
    }
    Ok(())
}

fn set(t: &mut Tape, rec: &mut Rec<'_>) {
    let world = u::gen_world(t);
    let req = u::gen_req(t);
    let (ents, creq) = match (bridge::entities(&world), bridge::request(&req)) {
        (Ok(e), Ok(r)) => (e, r),
        _ => {
            rec.discard("world-rejected");
            return;
        }
    };
    let cx = rm::Ctx { req: &req, world: &world };
    let n = 1 + t.upto(rec.size(5, 10));
    let gps: Vec<GP> = c01::gen_policies(t, n, &cx, 3);
    let order: Vec<usize> = (0..n).collect();
    let ident = |s: &str| s.to_string();
    let ps = match c01::build_set(&gps, &order, &ident) {
        Ok(p) => p,
        Err(e) => {
            rec.fail("policy-set-construction", e);
            return;
        }
    };
    let links = gps.iter().filter(|g| g.link.is_some()).count();
    rec.nontrivial = links >= 1 && n >= 2;
    rec.label_if(links >= 1, "has-link");
    rec.label_if(gps.iter().any(|g| g.link.as_ref().map(|l| l.1.is_some() && l.2.is_some()).unwrap_or(false)), "both-slots");
    rec.set_key(&format!("{gps:?}"));
    rec.render(|| {
        let c = &mut text::Style::canonical();
        gps.iter().map(|g| format!("// id={:?} link={:?}\n{}", g.id, g.link, pemit::policy_text(&g.src, c))).collect::<Vec<_>>().join("\n")
    });
    let auth = Authorizer::new();
    let base = c01::norm(&auth.is_authorized(&creq, &ps, &ents), &ident);
    let check = |what: &str, back: Result<PolicySet, String>, rec: &mut Rec<'_>| {
        match back {
            Ok(b) => {
                if let Err(e) = sets_equal(&ps, &b) {
                    rec.fail(format!("set-{what}-roundtrip"), format!("{what}: {e}"));
                    return;
                }
                let r = c01::norm(&auth.is_authorized(&creq, &b, &ents), &ident);
                if r != base {
                    rec.fail(format!("set-{what}-authz"), format!("{what}: response after round trip {r:?}, before {base:?}"));
                }
            }
            Err(e) => {
                rec.fail(format!("set-{what}-roundtrip"), format!("{what}: conversion back failed: {e}"));
            }
        }
    };
    check("json", ps.clone().to_json().map_err(|e| format!("to_json: {e}")).and_then(|j| PolicySet::from_json_value(j.clone()).map_err(|e| format!("from_json_value: {e}\n{j}"))), rec);
    if rec.failed() {
        return;
    }
    let arity_err = gps.iter().any(|g| g.src.conds.iter().any(|(_, e)| e.has_arity_error()));
    rec.label_if(arity_err, "pst-skip-arity");
    if !arity_err {
    check("pst", ps.to_pst().map_err(|e| format!("to_pst: {e}")).and_then(|x| PolicySet::from_pst(x).map_err(|e| format!("from_pst: {e}"))), rec);
    }
    if rec.failed() {
        return;
    }
    if !arity_err {
        // conversions starting from a JSON-born and from a PST-born set (each keeps its own lossless form)
        let json_born = ps.clone().to_json().map_err(|e| e.to_string()).and_then(|j| PolicySet::from_json_value(j).map_err(|e| e.to_string()));
        check("json-born-to-pst", json_born.and_then(|x| x.to_pst().map_err(|e| format!("to_pst: {e}"))).and_then(|x| PolicySet::from_pst(x).map_err(|e| format!("from_pst: {e}"))), rec);
        if rec.failed() {
            return;
        }
        let pst_born = ps.to_pst().map_err(|e| e.to_string()).and_then(|x| PolicySet::from_pst(x).map_err(|e| e.to_string()));
        check("pst-born-to-json", pst_born.and_then(|x| x.to_json().map_err(|e| format!("to_json: {e}"))).and_then(|j| PolicySet::from_json_value(j).map_err(|e| format!("from_json_value: {e}"))), rec);
        if rec.failed() {
            return;
        }
    }
    match ps.encode() {
        Ok(buf) => check("proto", PolicySet::decode(&buf[..]).map_err(|e| format!("decode: {e}")), rec),
        Err(e) => rec.label(format!("proto-encode-error:{e}")),
    }
}

pub fn property() -> Property {
    Property {
        id: "C06",
        rule: "C05's reference policies/templates (random spelling) and C01's policy sets with template links (both slots). single: from_json(to_json(p)) (CST->EST), AST->EST->AST, \
               from_pst(to_pst(p)), protobuf Template/Expression decode(encode(x)) are structurally equal to the text-born object and to the reference structure; a hand-written JSON policy equals the text-born object. \
               set: to_json/from_json_value, to_pst/from_pst, protobuf encode/decode of a PolicySet compared per id (templates, static policies, link template ids and bindings, effect, annotations) plus authorizer agreement. \
               Non-trivial = condition depth>=3 (single) / >=1 link and >=2 policies (set).",
        assumptions: &["harness emitters (text, JSON) and structural matcher"],
        subs: vec![
            SubCheck { name: "single", cases: (150_000, 3_000_000), tape_len: 700, run: single, min_labels: &[("template", 10_000)] },
            SubCheck { name: "set", cases: (30_000, 600_000), tape_len: 1800, run: set, min_labels: &[("has-link", 5000), ("both-slots", 500)] },
        ],
    }
}
