//! C04 — hierarchy membership equals parent-reachability after any store history.

use crate::engine::{Property, Rec, SubCheck};
use crate::tape::Tape;
use cedar_policy::{
    Authorizer, Context, Decision, Entities, Entity, EntityId, EntityTypeName, EntityUid, PolicySet, Request,
    RestrictedExpression,
};
use std::collections::{BTreeMap, BTreeSet, HashMap, HashSet};
use std::str::FromStr;
use std::sync::OnceLock;

const NU: usize = 7; // uids in play

fn uid(i: usize) -> EntityUid {
    let (ty, id) = match i {
        0..=3 => ("A", i),
        4..=6 => ("NS::B", i - 4),
        _ => ("NS::B", 99),
    };
    EntityUid::from_type_name_and_id(EntityTypeName::from_str(ty).unwrap(), EntityId::new(format!("{id}")))
}

fn uids() -> &'static Vec<EntityUid> {
    static U: OnceLock<Vec<EntityUid>> = OnceLock::new();
    U.get_or_init(|| (0..=NU).map(uid).collect())
}

fn in_policy() -> &'static PolicySet {
    static P: OnceLock<PolicySet> = OnceLock::new();
    P.get_or_init(|| PolicySet::from_str("permit(principal, action, resource) when { principal in resource };").unwrap())
}

fn action() -> EntityUid {
    EntityUid::from_str("Action::\"a\"").unwrap()
}

/// Model record: direct parents, attribute value, and the ancestor closure the library holds for it
/// (as of the end of the last successful operation; raw = parents for records inserted during the current op).
#[derive(Clone, Debug, PartialEq, Eq)]
struct MRec {
    parents: BTreeSet<usize>,
    attr: u8,
    closure: BTreeSet<usize>,
}

#[derive(Clone, Debug, Default)]
struct Model {
    recs: BTreeMap<usize, MRec>,
}

impl Model {
    /// reachable set from x through direct parents (parents without a record are leaves); excludes x unless on a cycle
    fn reach(&self, x: usize) -> BTreeSet<usize> {
        let mut seen = BTreeSet::new();
        let mut stack: Vec<usize> = self.recs.get(&x).map(|r| r.parents.iter().copied().collect()).unwrap_or_default();
        while let Some(y) = stack.pop() {
            if seen.insert(y) {
                if let Some(r) = self.recs.get(&y) {
                    stack.extend(r.parents.iter().copied());
                }
            }
        }
        seen
    }
    fn has_cycle(&self) -> bool {
        self.recs.keys().any(|x| self.reach(*x).contains(x))
    }
    fn reclose(&mut self) {
        let cl: Vec<(usize, BTreeSet<usize>)> = self.recs.keys().map(|k| (*k, self.reach(*k))).collect();
        for (k, c) in cl {
            self.recs.get_mut(&k).unwrap().closure = c;
        }
    }
}

#[derive(Clone, Debug)]
struct GEnt {
    id: usize,
    parents: BTreeSet<usize>,
    attr: u8,
}

#[derive(Clone, Debug)]
enum Op {
    From(Vec<GEnt>),
    Add(Vec<GEnt>),
    Upsert(Vec<GEnt>),
    Remove(Vec<usize>),
}

fn gen_ent(t: &mut Tape) -> GEnt {
    let id = t.upto(NU);
    let np = t.weighted(&[4, 4, 2, 1]);
    let mut parents = BTreeSet::new();
    for _ in 0..np {
        // parents may be any uid incl. self and the foreign one; biased to higher indices so that most batches are acyclic
        let p = if t.bool_p(1, 5) { t.upto(NU + 1) } else { id + 1 + t.upto(NU - id) };
        parents.insert(p);
    }
    let attr = t.weighted(&[6, 1]) as u8;
    GEnt { id, parents, attr }
}

fn gen_batch(t: &mut Tape, model: &Model, prefer_absent: bool) -> Vec<GEnt> {
    let n = t.weighted(&[1, 4, 4, 3, 2]);
    let mut v: Vec<GEnt> = Vec::new();
    for _ in 0..n {
        match t.weighted(&[10, 1, 2]) {
            1 if !v.is_empty() => {
                // duplicate of an earlier entity in the batch (identical, or conflicting)
                let mut e = v[t.upto(v.len())].clone();
                if t.coin() {
                    e.parents.insert(t.upto(NU + 1));
                }
                v.push(e);
            }
            2 if !model.recs.is_empty() => {
                // re-add a present uid: with its closure / its direct parents / something else
                let keys: Vec<usize> = model.recs.keys().copied().collect();
                let k = keys[t.upto(keys.len())];
                let r = &model.recs[&k];
                let parents = match t.weighted(&[2, 2, 1]) {
                    0 => r.closure.clone(),
                    1 => r.parents.clone(),
                    _ => {
                        let mut p = r.parents.clone();
                        p.insert(t.upto(NU + 1));
                        p
                    }
                };
                v.push(GEnt { id: k, parents, attr: if t.bool_p(1, 6) { 1 - r.attr.min(1) } else { r.attr } });
            }
            _ => {
                let mut e = gen_ent(t);
                if prefer_absent && t.bool_p(3, 4) {
                    let absent: Vec<usize> = (0..NU).filter(|k| !model.recs.contains_key(k) && !v.iter().any(|x: &GEnt| x.id == *k)).collect();
                    if !absent.is_empty() {
                        e.id = absent[t.upto(absent.len())];
                    }
                }
                v.push(e)
            }
        }
    }
    v
}

fn to_entity(e: &GEnt) -> Entity {
    let us = uids();
    let mut attrs = HashMap::new();
    if e.attr > 0 {
        attrs.insert("v".to_string(), RestrictedExpression::new_long(e.attr as i64));
    }
    Entity::new(us[e.id].clone(), attrs, e.parents.iter().map(|p| us[*p].clone()).collect::<HashSet<_>>()).unwrap()
}

/// Apply an insertion with the documented duplicate rule. Err(()) = Duplicate predicted.
fn model_insert(m: &mut Model, e: &GEnt, overwrite: bool) -> Result<(), ()> {
    match m.recs.get(&e.id) {
        Some(old) if !overwrite => {
            // identical iff same attrs and same overall ancestor set
            if old.attr == e.attr && old.closure == e.parents {
                Ok(())
            } else {
                Err(())
            }
        }
        _ => {
            m.recs.insert(e.id, MRec { parents: e.parents.clone(), attr: e.attr, closure: e.parents.clone() });
            Ok(())
        }
    }
}

fn model_apply(m: &Model, op: &Op) -> Result<Model, &'static str> {
    let mut n = m.clone();
    match op {
        Op::From(b) => {
            n = Model::default();
            for e in b {
                model_insert(&mut n, e, false).map_err(|_| "duplicate")?;
            }
        }
        Op::Add(b) => {
            for e in b {
                model_insert(&mut n, e, false).map_err(|_| "duplicate")?;
            }
        }
        Op::Upsert(b) => {
            for e in b {
                model_insert(&mut n, e, true).map_err(|_| "duplicate")?;
            }
        }
        Op::Remove(ids) => {
            for x in ids {
                if n.recs.remove(x).is_some() {
                    for r in n.recs.values_mut() {
                        r.parents.remove(x);
                    }
                }
            }
        }
    }
    if n.has_cycle() {
        return Err("cycle");
    }
    n.reclose();
    Ok(n)
}

fn show_op(op: &Op) -> String {
    let us = uids();
    let ents = |b: &Vec<GEnt>| {
        b.iter()
            .map(|e| {
                format!(
                    "{}{} parents=[{}]",
                    us[e.id],
                    if e.attr > 0 { format!(" v={}", e.attr) } else { String::new() },
                    e.parents.iter().map(|p| us[*p].to_string()).collect::<Vec<_>>().join(", ")
                )
            })
            .collect::<Vec<_>>()
            .join("; ")
    };
    match op {
        Op::From(b) => format!("from_entities([{}])", ents(b)),
        Op::Add(b) => format!("add_entities([{}])", ents(b)),
        Op::Upsert(b) => format!("upsert_entities([{}])", ents(b)),
        Op::Remove(ids) => format!("remove_entities([{}])", ids.iter().map(|p| us[*p].to_string()).collect::<Vec<_>>().join(", ")),
    }
}

fn check_state(store: &Entities, m: &Model, rec: &mut Rec<'_>, step: usize, diamonds: &mut bool) {
    let us = uids();
    let auth = Authorizer::new();
    // len / iter agree with the key set
    if store.len() != m.recs.len() {
        rec.fail("len-mismatch", format!("step {step}: len()={} but model has {} records", store.len(), m.recs.len()));
        return;
    }
    let present: BTreeSet<String> = store.iter().map(|e| e.uid().to_string()).collect();
    let mpresent: BTreeSet<String> = m.recs.keys().map(|k| us[*k].to_string()).collect();
    if present != mpresent {
        rec.fail("iter-mismatch", format!("step {step}: iter() uids {present:?} != model {mpresent:?}"));
        return;
    }
    for b in 0..=NU {
        let reach = m.reach(b);
        // ancestors(b)
        match (store.ancestors(&us[b]), m.recs.contains_key(&b)) {
            (None, false) => {}
            (Some(it), true) => {
                let got: BTreeSet<String> = it.map(|u| u.to_string()).collect();
                let want: BTreeSet<String> = reach.iter().map(|k| us[*k].to_string()).collect();
                if got != want {
                    let stale = got.difference(&want).next().is_some();
                    rec.fail(
                        if stale { "ancestors-stale" } else { "ancestors-missing" },
                        format!("step {step}: ancestors({}) = {got:?}, parent-reachability gives {want:?}", us[b]),
                    );
                    return;
                }
            }
            (lib, model) => {
                rec.fail("ancestors-presence", format!("step {step}: ancestors({}) is_some={} but model record present={model}", us[b], lib.is_some()));
                return;
            }
        }
        // count paths for the non-trivial rule: two distinct parents of b reaching a common node
        if !*diamonds {
            if let Some(r) = m.recs.get(&b) {
                let ps: Vec<usize> = r.parents.iter().copied().collect();
                for i in 0..ps.len() {
                    for j in i + 1..ps.len() {
                        let mut ri = m.reach(ps[i]);
                        ri.insert(ps[i]);
                        let mut rj = m.reach(ps[j]);
                        rj.insert(ps[j]);
                        if ri.intersection(&rj).next().is_some() {
                            *diamonds = true;
                        }
                    }
                }
            }
        }
        for a in 0..=NU {
            let want = a == b || reach.contains(&a);
            let got = store.is_ancestor_of(&us[a], &us[b]);
            if got != want {
                let sig = if a == b { "is_ancestor_of-not-reflexive" } else if got { "is_ancestor_of-stale" } else { "is_ancestor_of-missing" };
                rec.fail(sig, format!("step {step}: is_ancestor_of({}, {}) = {got}, model (a is e or reachable from e) = {want}", us[a], us[b]));
                return;
            }
            let req = Request::new(us[b].clone(), action(), us[a].clone(), Context::empty(), None).unwrap();
            let resp = auth.is_authorized(&req, in_policy(), store);
            let got_in = resp.decision() == Decision::Allow;
            if got_in != want || resp.diagnostics().errors().next().is_some() {
                rec.fail(
                    if got_in { "in-stale" } else { "in-missing" },
                    format!("step {step}: `{} in {}` evaluates to {got_in} (errors: {}), model = {want}", us[b], us[a], resp.diagnostics().errors().count()),
                );
                return;
            }
        }
    }
}

fn history(t: &mut Tape, rec: &mut Rec<'_>) {
    let max_ops = rec.size(12, 20);
    let nops = 1 + t.upto(max_ops);
    let mut model = Model::default();
    let mut store = Entities::empty();
    let mut log: Vec<String> = Vec::new();
    let mut removed_with_desc = false;
    let mut diamonds = false;
    let mut cyc = false;
    let mut dup = false;
    let mut key: Vec<String> = Vec::new();
    for step in 0..nops {
        let op = match t.weighted(&[3, 1, 3, 3]) {
            0 => Op::Add(gen_batch(t, &model, true)),
            1 => Op::From(gen_batch(t, &Model::default(), true)),
            2 => {
                // one upsert call that changes an entity twice and cuts one of its children loose: [M, M', C] where C is a
                // child of M with descendants of its own (stale-edge stripping works on half-updated ancestor sets here)
                let shaped: Option<Vec<GEnt>> = if t.bool_p(1, 2) {
                    let cands: Vec<(usize, usize)> = model
                        .recs
                        .iter()
                        .flat_map(|(c, r)| r.parents.iter().filter(|m| model.recs.contains_key(*m)).map(move |m| (*m, *c)))
                        .filter(|(_, c)| model.recs.iter().any(|(k, _)| k != c && model.reach(*k).contains(c)))
                        .collect();
                    if cands.is_empty() {
                        None
                    } else {
                        let (m, c) = cands[t.upto(cands.len())];
                        let mut p1 = std::collections::BTreeSet::new();
                        p1.insert(t.upto(NU + 1));
                        let mut p2 = p1.clone();
                        p2.insert(t.upto(NU + 1));
                        let attr = model.recs[&m].attr;
                        let mut v = vec![GEnt { id: m, parents: if t.coin() { p1 } else { std::collections::BTreeSet::new() }, attr }, GEnt { id: m, parents: p2, attr }];
                        let cut = GEnt { id: c, parents: if t.bool_p(3, 4) { std::collections::BTreeSet::new() } else { model.recs[&c].parents.clone() }, attr: model.recs[&c].attr };
                        if t.coin() {
                            v.push(cut);
                        } else {
                            v.insert(0, cut);
                        }
                        Some(v)
                    }
                } else {
                    None
                };
                match shaped {
                    Some(v) => {
                        rec.label("upsert:same-uid-twice-and-its-child");
                        Op::Upsert(v)
                    }
                    None => Op::Upsert(gen_batch(t, &model, false)),
                }
            }
            _ => {
                let n = 1 + t.weighted(&[5, 2, 1]);
                Op::Remove((0..n).map(|_| t.upto(NU + 1)).collect())
            }
        };
        let shown = show_op(&op);
        key.push(shown.clone());
        // classification before applying
        match &op {
            Op::Remove(ids) => {
                for x in ids {
                    if model.recs.contains_key(x) && model.recs.iter().any(|(k, _)| model.reach(*k).contains(x)) {
                        removed_with_desc = true;
                    }
                }
            }
            Op::Upsert(b) => {
                for e in b {
                    if model.recs.contains_key(&e.id) && model.recs.iter().any(|(k, _)| model.reach(*k).contains(&e.id)) {
                        removed_with_desc = true;
                    }
                }
            }
            _ => {}
        }
        let expect = model_apply(&model, &op);
        let before = store.clone();
        let got = match &op {
            Op::From(b) => Entities::from_entities(b.iter().map(to_entity), None),
            Op::Add(b) => store.add_entities(b.iter().map(to_entity), None),
            Op::Upsert(b) => store.upsert_entities(b.iter().map(to_entity), None),
            Op::Remove(ids) => store.remove_entities(ids.iter().map(|i| uids()[*i].clone())),
        };
        match (got, expect) {
            (Ok(s), Ok(m)) => {
                log.push(format!("{shown} -> Ok"));
                store = s;
                model = m;
                check_state(&store, &model, rec, step, &mut diamonds);
            }
            (Err(e), Err(why)) => {
                log.push(format!("{shown} -> Err({e}) [model: {why}]"));
                if why == "cycle" {
                    cyc = true;
                } else {
                    dup = true;
                }
                store = before;
                // a failed operation changes nothing
                check_state(&store, &model, rec, step, &mut diamonds);
            }
            (Ok(_), Err(why)) => {
                log.push(format!("{shown} -> Ok, but model predicts Err({why})"));
                rec.fail(
                    if why == "cycle" { "cycle-accepted" } else { "conflicting-duplicate-accepted" },
                    format!("step {step}: {shown} succeeded although the result would contain a {why}"),
                );
                store = before;
            }
            (Err(e), Ok(_)) => {
                log.push(format!("{shown} -> Err({e}), model predicts Ok"));
                rec.fail("unpredicted-error", format!("step {step}: {shown} failed with `{e}` but the documented rules predict success"));
                store = before;
            }
        }
        if rec.failed() {
            break;
        }
    }
    rec.label_if(removed_with_desc, "remove/upsert-with-descendants");
    rec.label_if(diamonds, "diamond");
    rec.label_if(cyc, "cycle-rejected");
    rec.label_if(dup, "duplicate-rejected");
    rec.nontrivial = removed_with_desc && diamonds;
    rec.set_key(&key);
    rec.render(|| log.join("\n"));
}

// ---------------------------------------------------------------------------------------------
// core-only: EnforceAlreadyComputed accepts ⇒ closed ∧ acyclic

fn enforce(t: &mut Tape, rec: &mut Rec<'_>) {
    use cedar_policy_core::ast;
    use cedar_policy_core::entities::{Entities as CEntities, NoEntitiesSchema, TCComputation};
    use cedar_policy_core::extensions::Extensions;
    let n = 2 + t.upto(5);
    // start from a random DAG or near-DAG with its true closure, then perturb 0..2 edges
    let mut parents: Vec<BTreeSet<usize>> = vec![BTreeSet::new(); n];
    for i in 0..n {
        let k = t.weighted(&[3, 4, 2]);
        for _ in 0..k {
            // mostly forward edges (acyclic), sometimes any
            let p = if t.bool_p(1, 10) { t.upto(n + 1) } else if i + 1 < n { i + 1 + t.upto(n - i - 1) } else { n };
            parents[i].insert(p); // index n = a parent without record
        }
    }
    let reach = |ps: &Vec<BTreeSet<usize>>, x: usize| -> BTreeSet<usize> {
        let mut seen = BTreeSet::new();
        let mut st: Vec<usize> = ps[x].iter().copied().collect();
        while let Some(y) = st.pop() {
            if seen.insert(y) && y < n {
                st.extend(ps[y].iter().copied());
            }
        }
        seen
    };
    let mut indirect: Vec<BTreeSet<usize>> = (0..n).map(|i| reach(&parents, i).difference(&parents[i]).copied().collect()).collect();
    let perturb = t.weighted(&[3, 4, 2]);
    let mut pert_log = Vec::new();
    for _ in 0..perturb {
        let i = t.upto(n);
        match t.upto(3) {
            0 => {
                // drop an indirect edge
                if let Some(x) = indirect[i].iter().next().copied() {
                    let xs: Vec<usize> = indirect[i].iter().copied().collect();
                    let x2 = xs[t.upto(xs.len())];
                    let _ = x;
                    indirect[i].remove(&x2);
                    pert_log.push(format!("drop indirect {i}->{x2}"));
                }
            }
            1 => {
                let x = t.upto(n + 1);
                if !parents[i].contains(&x) {
                    indirect[i].insert(x);
                    pert_log.push(format!("add indirect {i}->{x}"));
                }
            }
            _ => {
                let x = t.upto(n + 1);
                indirect[i].remove(&x);
                parents[i].insert(x);
                pert_log.push(format!("add parent {i}->{x}"));
            }
        }
    }
    let cu = |i: usize| ast::EntityUID::with_eid_and_type("T", &format!("{i}")).unwrap();
    let ents: Vec<ast::Entity> = (0..n)
        .map(|i| {
            ast::Entity::new_with_attr_partial_value(
                cu(i),
                [],
                indirect[i].iter().map(|x| cu(*x)).collect(),
                parents[i].iter().map(|x| cu(*x)).collect(),
                [],
            )
        })
        .collect();
    // model verdict
    let anc: Vec<BTreeSet<usize>> = (0..n).map(|i| parents[i].union(&indirect[i]).copied().collect()).collect();
    let closed = (0..n).all(|i| anc[i].iter().all(|a| *a >= n || anc[*a].is_subset(&anc[i])));
    let acyclic = (0..n).all(|i| {
        // cycle detection over the given edges
        let mut seen = BTreeSet::new();
        let mut st: Vec<usize> = anc[i].iter().copied().collect();
        while let Some(y) = st.pop() {
            if y == i {
                return false;
            }
            if seen.insert(y) && y < n {
                st.extend(anc[y].iter().copied());
            }
        }
        true
    });
    let res = CEntities::from_entities(ents, None::<&NoEntitiesSchema>, TCComputation::EnforceAlreadyComputed, Extensions::all_available());
    let desc = || {
        format!(
            "entities: {}\nperturbations: {:?}\nmodel: closed={closed} acyclic={acyclic}",
            (0..n).map(|i| format!("T::{i} parents={:?} indirect={:?}", parents[i], indirect[i])).collect::<Vec<_>>().join("; "),
            pert_log
        )
    };
    match &res {
        Ok(store) => {
            rec.label("accepted");
            if !closed {
                rec.fail("enforce-accepts-unclosed", format!("EnforceAlreadyComputed accepted a store that is not transitively closed\n{}", desc()));
            } else if !acyclic {
                rec.fail("enforce-accepts-cycle", format!("EnforceAlreadyComputed accepted a cyclic store\n{}", desc()));
            } else {
                // accepted store answers membership according to the given (closed) edges
                for i in 0..n {
                    let e = match store.entity(&cu(i)) {
                        cedar_policy_core::entities::Dereference::Data(e) => e,
                        _ => {
                            rec.fail("enforce-lost-entity", format!("entity {i} missing after from_entities\n{}", desc()));
                            return;
                        }
                    };
                    let got: BTreeSet<String> = e.ancestors().map(|u| u.to_string()).collect();
                    let want: BTreeSet<String> = anc[i].iter().map(|x| cu(*x).to_string()).collect();
                    if got != want {
                        rec.fail("enforce-changed-ancestors", format!("ancestors of {i}: {got:?} != given {want:?}\n{}", desc()));
                        return;
                    }
                }
            }
        }
        Err(_) => {
            rec.label("rejected");
            if closed && acyclic {
                rec.label("rejected-though-closed-acyclic");
            }
        }
    }
    rec.label_if(!closed, "input-unclosed");
    rec.label_if(!acyclic, "input-cyclic");
    rec.nontrivial = perturb > 0 && n >= 3;
    rec.set_key(&(format!("{parents:?}{indirect:?}")));
    rec.render(desc);
}

pub fn property() -> Property {
    Property {
        id: "C04",
        rule: "histories of 1..8 (thorough 1..20) from/add/upsert/remove operations over 7 uids of 2 types plus one never-present uid, \
               arbitrary parent sets (self, dangling, cycles), in-batch duplicates and re-adds; after every step all 64 ordered pairs are \
               queried through is_ancestor_of, ancestors() and `principal in resource`. Non-trivial = the history removes or upserts an \
               entity that had descendants AND some entity had two parent paths to a common ancestor; distinct = distinct rendered op list. \
               Sub-check `enforce`: core from_entities(EnforceAlreadyComputed) on closures with 0..2 perturbed edges; non-trivial = perturbed, >=3 entities.",
        assumptions: &["reference model: map uid -> direct parents, DFS reachability, documented duplicate rule (deep_eq on ancestor closure)"],
        subs: vec![
            SubCheck { name: "history", cases: (80_000, 1_600_000), tape_len: 400, run: history, min_labels: &[("remove/upsert-with-descendants", 2000), ("diamond", 2000), ("cycle-rejected", 2000), ("duplicate-rejected", 1000), ("upsert:same-uid-twice-and-its-child", 2000)] },
            SubCheck { name: "enforce", cases: (40_000, 1_000_000), tape_len: 80, run: enforce, min_labels: &[("accepted", 1000), ("input-unclosed", 1000), ("input-cyclic", 300)] },
        ],
    }
}
