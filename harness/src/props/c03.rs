//! C03 — strict validation is sound (and not vacuous).

use crate::bridge;
use crate::emit::{policy as pemit, text};
use crate::engine::{Property, Rec, SubCheck};
use crate::gen::s::{self, SchemaOpts};
use crate::props::scase::{self, render_case};
use crate::refmodel::schema::RSchema;
use crate::refmodel::{Class, Req, World, V};
use crate::tape::Tape;
use cedar_policy::{Entities, Policy, PolicyId, PolicySet, Request, Schema, ValidationMode, ValidationWarning, Validator};
use cedar_policy_core::ast::{self, Expr, ExprBuilder, ExprKind};
use cedar_policy_core::evaluator::Evaluator;
use cedar_policy_core::extensions::Extensions;
use cedar_policy_core::validator::typecheck::{PolicyCheck, Typechecker};
use cedar_policy_core::validator::types::{BoolType, EntityKind, OpenTag, Type};

/// does the (reference) value inhabit the static type the typechecker assigned?
pub fn inhabits_cedar(v: &V, ty: &Type) -> bool {
    match (ty, v) {
        (Type::Never, _) => false,
        (Type::Bool(BoolType::AnyBool), V::Bool(_)) => true,
        (Type::Bool(BoolType::True), V::Bool(b)) => *b,
        (Type::Bool(BoolType::False), V::Bool(b)) => !*b,
        (Type::Long, V::Long(_)) | (Type::String, V::Str(_)) => true,
        (Type::Entity(EntityKind::AnyEntity), V::Euid(_)) => true,
        (Type::Entity(EntityKind::Entity(lub)), V::Euid(u)) => match lub.get_single_entity() {
            Some(et) => et.to_string() == u.ty,
            None => true, // a multi-element LUB cannot be enumerated from outside the crate: checked as "some entity" (weaker, never wrong)
        },
        (Type::Set { element_type: None }, V::Set(_)) => true,
        (Type::Set { element_type: Some(el) }, V::Set(xs)) => xs.iter().all(|x| inhabits_cedar(x, el)),
        (Type::Record { attrs, open_attributes }, V::Rec(m)) => {
            let declared: std::collections::BTreeMap<String, (&Type, bool)> = attrs.iter().map(|(k, a)| (k.to_string(), (&*a.attr_type, a.is_required))).collect();
            m.iter().all(|(k, x)| match declared.get(k) {
                Some((t, _)) => inhabits_cedar(x, t),
                None => *open_attributes == OpenTag::OpenAttributes,
            }) && declared.iter().all(|(k, (_, req))| !*req || m.contains_key(k))
        }
        (Type::ExtensionType { name }, v) => matches!((name.to_string().as_str(), v), ("decimal", V::Decimal(_)) | ("ipaddr", V::Ip(_)) | ("datetime", V::Datetime(_)) | ("duration", V::Duration(_))),
        _ => false,
    }
}


fn eval_plain(ev: &Evaluator<'_>, e: &Expr) -> Result<ast::Value, Option<Class>> {
    ev.interpret(e, &ast::SlotEnv::new()).map_err(|er| bridge::class(&er))
}

/// Lock-step walk over the typed AST: every node that is actually evaluated and yields a value must inhabit its static type.
fn walk(node: &Expr<Option<Type>>, ev: &Evaluator<'_>, visited: &mut usize) -> Result<Result<ast::Value, Option<Class>>, String> {
    *visited += 1;
    let plain: Expr = node.clone().into_expr::<ExprBuilder<()>>();
    let res = eval_plain(ev, &plain);
    if let (Ok(v), Some(ty)) = (&res, node.data()) {
        match bridge::value(v) {
            Ok(rv) => {
                if !inhabits_cedar(&rv, ty) {
                    return Err(format!("subexpression `{plain}` evaluates to `{v}` which does not inhabit its static type {ty}"));
                }
            }
            Err(e) => return Err(format!("bridge: {e}")),
        }
    }
    let is_bool = |r: &Result<ast::Value, Option<Class>>, b: bool| matches!(r, Ok(v) if v.value == ast::ValueKind::Lit(ast::Literal::Bool(b)));
    match node.expr_kind() {
        ExprKind::And { left, right } => {
            let l = walk(left, ev, visited)?;
            if is_bool(&l, true) {
                let _ = walk(right, ev, visited)?;
            }
        }
        ExprKind::Or { left, right } => {
            let l = walk(left, ev, visited)?;
            if is_bool(&l, false) {
                let _ = walk(right, ev, visited)?;
            }
        }
        ExprKind::If { test_expr, then_expr, else_expr } => {
            let c = walk(test_expr, ev, visited)?;
            if is_bool(&c, true) {
                let _ = walk(then_expr, ev, visited)?;
            } else if is_bool(&c, false) {
                let _ = walk(else_expr, ev, visited)?;
            }
        }
        other => {
            let children: Vec<&Expr<Option<Type>>> = match other {
                ExprKind::UnaryApp { arg, .. } => vec![arg],
                ExprKind::BinaryApp { arg1, arg2, .. } => vec![arg1, arg2],
                ExprKind::ExtensionFunctionApp { args, .. } => args.iter().collect(),
                ExprKind::GetAttr { expr, .. } | ExprKind::HasAttr { expr, .. } | ExprKind::Like { expr, .. } | ExprKind::Is { expr, .. } => vec![expr],
                ExprKind::Set(xs) => xs.iter().collect(),
                // record literals: the implementation evaluates fields in key order
                ExprKind::Record(m) => m.values().collect(),
                _ => vec![],
            };
            for c in children {
                if walk(c, ev, visited)?.is_err() {
                    break;
                }
            }
        }
    }
    Ok(res)
}

pub struct Verdict {
    pub strict_ok: bool,
    pub strict_errors: Vec<String>,
    pub permissive_ok: bool,
    pub impossible: bool,
}

pub fn validate(schema: &Schema, ps: &PolicySet) -> Verdict {
    let v = Validator::new(schema.clone());
    let r = v.validate(ps, ValidationMode::Strict);
    let p = v.validate(ps, ValidationMode::Permissive);
    let impossible = r.validation_warnings().any(|w| matches!(w, ValidationWarning::ImpossiblePolicy(_)));
    let strict_errors: Vec<String> = r.validation_errors().map(|e| e.to_string()).collect();
    Verdict { strict_ok: r.validation_passed(), strict_errors, permissive_ok: p.validation_passed(), impossible }
}

fn case(t: &mut Tape, rec: &mut Rec<'_>) {
    let o = SchemaOpts::default();
    let rs: RSchema = s::gen_schema(t, &o);
    let schema = match scase::build_schema(&rs) {
        Ok(s) => s,
        Err(e) => {
            rec.discard("gen-rejected");
            rec.render(|| e);
            return;
        }
    };
    let envs = s::all_envs(&rs);
    if envs.is_empty() {
        rec.discard("no-env");
        return;
    }
    let (a, pt, rt) = envs[t.upto(envs.len())].clone();
    let trap = t.bool_p(3, 5);
    let depth = 1 + t.upto(rec.size(3, 4));
    // a fifth of the policies are templates (`== ?slot`, `in ?slot`, `is T in ?slot` scopes), linked per request below
    let slots: u8 = if t.bool_p(1, 5) { 1 + t.upto(3) as u8 } else { 0 };
    let tp = s::gen_policy_for(t, &rs, a, &pt, &rt, depth, 3, trap, slots);
    let txt = pemit::policy_text(&tp.policy, &mut text::Style::canonical());
    rec.set_key(&txt);
    rec.label_if(slots != 0, "template");
    let (pol, ps): (Option<Policy>, PolicySet) = if slots == 0 {
        match Policy::parse(Some(PolicyId::new("p")), &txt) {
            Ok(p) => (Some(p.clone()), PolicySet::from_policies([p]).unwrap()),
            Err(e) => {
                rec.fail("generated-text-rejected", format!("{txt}\n{e}"));
                return;
            }
        }
    } else {
        match cedar_policy::Template::parse(Some(PolicyId::new("p")), &txt) {
            Ok(tpl) => {
                let mut ps = PolicySet::new();
                ps.add_template(tpl).unwrap();
                (None, ps)
            }
            Err(e) => {
                rec.fail("generated-text-rejected", format!("{txt}\n{e}"));
                return;
            }
        }
    };
    let v = validate(&schema, &ps);
    let trap_kind = tp.trap.unwrap_or("none");
    rec.label(format!("trap:{trap_kind}:{}", if v.strict_ok { "accepted" } else { "rejected" }));
    rec.label_if(v.strict_ok, "accepted");
    rec.label_if(v.impossible, "impossible-policy");
    let schema_txt = crate::emit::schema::schema_cedar(&rs, None);
    rec.render(|| format!("schema:\n{schema_txt}\npolicy ({pt} / {} / {rt}; trap={trap_kind}):\n{txt}\nstrict: {} {:?}\npermissive: {}", a.id, v.strict_ok, v.strict_errors, v.permissive_ok));
    // S3: the conservative fragment (documented guard idioms, no trap) is accepted
    if tp.trap.is_none() && !v.strict_ok {
        rec.fail("non-vacuity:conservative-fragment-rejected", format!("a policy that only uses declared, correctly typed accesses with documented guards is rejected in strict mode: {:?}\nschema:\n{schema_txt}\npolicy:\n{txt}", v.strict_errors));
        return;
    }
    // S4: strict accepted => permissive accepted
    if v.strict_ok && !v.permissive_ok {
        rec.fail("strict-but-not-permissive", format!("accepted in strict mode but rejected in permissive mode\nschema:\n{schema_txt}\npolicy:\n{txt}"));
        return;
    }
    if !v.strict_ok {
        return;
    }
    // S1/S2 on conformant worlds
    let typed: Option<Expr<Option<Type>>> = {
        let tc = Typechecker::new(schema.as_ref(), cedar_policy_core::validator::ValidationMode::Strict);
        let mut found = None;
        // (templates: the typed AST still holds slots; only whole-policy outcomes are judged for them)
        for (env, check) in pol.iter().flat_map(|pol| tc.typecheck_by_request_env(pol.as_ref().template())) {
            let matches_env = env.principal_entity_type().map(|x| x.to_string()) == Some(pt.clone()) && env.resource_entity_type().map(|x| x.to_string()) == Some(rt.clone()) && env.action_entity_uid().map(|u| bridge::uid_of_core(u)) == Some(a.uid());
            if matches_env {
                if let PolicyCheck::Success(e) | PolicyCheck::Irrelevant(_, e) = check {
                    found = Some(e);
                }
            }
        }
        found
    };
    rec.label_if(typed.is_some(), "typed-ast");
    let n_worlds = rec.size(4, 8);
    let mut absent_optional_seen = false;
    let mut visited_total = 0usize;
    for _ in 0..n_worlds {
        let world: World = s::gen_world(t, &rs);
        let req: Req = s::gen_request_for(t, &rs, a, &pt, &rt);
        let (ents, creq): (Entities, Request) = match (scase::build_entities(&world, &schema), scase::build_request(&req, &schema)) {
            (Ok(e), Ok(r)) => (e, r),
            (e, r) => {
                rec.label("world-rejected");
                rec.render(|| format!("world rejected: {:?} {:?}", e.err(), r.err()));
                continue;
            }
        };
        if tp.uses_optional {
            absent_optional_seen = true;
        }
        let ev = Evaluator::new(creq.as_ref().clone(), ents.as_ref(), Extensions::all_available());
        let subject: Policy = match &pol {
            Some(p) => p.clone(),
            None => {
                // link the template with the request's own principal / resource (conformant uids of the scope's types)
                let mut linked = ps.clone();
                let mut vals = std::collections::HashMap::new();
                if slots & 1 != 0 {
                    vals.insert(cedar_policy::SlotId::principal(), bridge::euid(&req.principal));
                }
                if slots & 2 != 0 {
                    vals.insert(cedar_policy::SlotId::resource(), bridge::euid(&req.resource));
                }
                if let Err(e) = linked.link(PolicyId::new("p"), PolicyId::new("l"), vals) {
                    rec.label("link-rejected");
                    rec.render(|| format!("link rejected: {e}"));
                    continue;
                }
                linked.policy(&PolicyId::new("l")).unwrap().clone()
            }
        };
        let out = ev.evaluate(subject.as_ref());
        match &out {
            Ok(sat) => {
                rec.label(if *sat { "eval:sat" } else { "eval:unsat" });
                if *sat && v.impossible {
                    rec.fail("impossible-policy-satisfied", format!("the validator reports the policy as impossible, yet it is satisfied\n{}\npolicy:\n{txt}", render_case(&rs, &world, Some(&req))));
                    return;
                }
            }
            Err(e) => match bridge::class(e) {
                Some(Class::NoEntity) | Some(Class::Overflow) | Some(Class::Ext) => rec.label("eval:allowed-error"),
                c => {
                    rec.fail(
                        format!("soundness:{}:{trap_kind}", match c {
                            Some(Class::Type) => "type-error",
                            Some(Class::NoAttr) => "missing-attribute-or-tag",
                            Some(Class::Arity) => "arity",
                            Some(Class::UnknownFn) => "unknown-function",
                            _ => "other-error",
                        }),
                        format!("strict validation accepted the policy, yet evaluation on a conformant request/store fails with: {e}\n{}\npolicy:\n{txt}", render_case(&rs, &world, Some(&req))),
                    );
                    return;
                }
            },
        }
        if let Some(typed) = &typed {
            match walk(typed, &ev, &mut visited_total) {
                Ok(_) => {}
                Err(msg) => {
                    rec.fail("soundness:subexpression-type", format!("{msg}\n{}\npolicy:\n{txt}", render_case(&rs, &world, Some(&req))));
                    return;
                }
            }
        }
    }
    rec.label_if(visited_total > 0, "typed-walk");
    rec.nontrivial = (tp.uses_optional || tp.uses_tags || tp.max_derefs >= 1) && absent_optional_seen;
}

pub fn property() -> Property {
    Property {
        id: "C03",
        rule: "Schema-G schema, one request environment, a type-directed policy (Policy-T: typed access paths up to 3 levels through entities/records/context, optional attributes and tags guarded the documented way, arithmetic, sets, extension calls) \
               of which 60% carry exactly one planted guard mistake (dropped guard, || for &&, negated guard, guard in the else branch, guard after use). Every policy accepted by strict validation is evaluated on 4 (thorough 8) freshly generated conformant worlds/requests \
               (entities present or absent, optional attributes present or absent): the outcome must be a boolean or a missing-entity / overflow / extension error; every evaluated subexpression of the typechecker's typed AST must inhabit its static type; \
               an `impossiblePolicy` is never satisfied. Non-vacuity: trap-free policies are accepted in strict mode; strict acceptance implies permissive acceptance. Non-trivial = an accepted policy that uses an optional attribute, a tag or an entity dereference.",
        assumptions: &["World-S conformance (checked by the library itself)", "inhabits_cedar over the validator's Type; multi-element entity LUBs are treated as any entity", "Policy-T's conservative fragment is a subset of strict typing (calibrated on the unchanged tree)"],
        subs: vec![SubCheck { name: "soundness", cases: (150_000, 3_000_000), tape_len: 3000, run: case, min_labels: &[("accepted", 40_000), ("typed-walk", 30_000), ("eval:sat", 15_000), ("eval:allowed-error", 4000), ("trap:drop-guard:rejected", 2500)] }],
    }
}
