//! C19 — JSON/FFI, stateful-cache and CLI front ends give exactly the API answers.

use crate::bridge;
use crate::emit::schema as semit;
use crate::emit::{policy as pemit, text};
use crate::engine::{Property, Rec, SubCheck};
use crate::gen::s::{self, SchemaOpts};
use crate::props::c01::{norm, Norm};
use crate::props::scase::{self, AuthCase, AuthOpts};
use crate::refmodel::policy::{EntRef, PrC, RPolicy};
use crate::refmodel::*;
use crate::tape::Tape;
use cedar_policy::ffi;
use cedar_policy::{Authorizer, Context, Entities, EntityUid, Policy, PolicyId, PolicySet, Request, Schema, SlotId, Template, ValidationMode, Validator};
use serde_json::{json, Map, Value as J};
use std::collections::{BTreeMap, BTreeSet, HashMap};
use std::sync::atomic::{AtomicU64, Ordering};

fn opts(rec: &Rec<'_>) -> AuthOpts {
    AuthOpts { closed_16: 0, schema: SchemaOpts::default(), max_policies: rec.size(3, 5), depth: 2, path_budget: 3, traps: false }
}

fn uid_json(t: &mut Tape, u: &Uid) -> J {
    if t.coin() {
        json!({"type": u.ty, "id": u.id})
    } else {
        json!({"__entity": {"type": u.ty, "id": u.id}})
    }
}

#[derive(Clone, Debug)]
enum PShape {
    Concatenated,
    Array,
    Map,
}

/// One policy of the call: (id it will have, how it is written, optional template link)
struct CallPolicies {
    json: J,
    /// the same set built through the public API; Err = construction must fail
    api: Result<PolicySet, String>,
    shapes: BTreeSet<&'static str>,
}

/// Turn a static policy into (template, bindings) with the same meaning, when its scope names an entity.
fn templatize(p: &RPolicy) -> Option<(RPolicy, Option<Uid>, Option<Uid>)> {
    let mut tp = p.clone();
    let mut pb = None;
    let mut rb = None;
    let f = |c: &PrC| -> Option<(PrC, Uid)> {
        match c {
            PrC::Eq(EntRef::Uid(u)) => Some((PrC::Eq(EntRef::Slot), u.clone())),
            PrC::In(EntRef::Uid(u)) => Some((PrC::In(EntRef::Slot), u.clone())),
            PrC::IsIn(t, EntRef::Uid(u)) => Some((PrC::IsIn(t.clone(), EntRef::Slot), u.clone())),
            _ => None,
        }
    };
    if let Some((c, u)) = f(&p.principal) {
        tp.principal = c;
        pb = Some(u);
    }
    if let Some((c, u)) = f(&p.resource) {
        tp.resource = c;
        rb = Some(u);
    }
    if pb.is_none() && rb.is_none() {
        None
    } else {
        Some((tp, pb, rb))
    }
}

fn build_policies(t: &mut Tape, c: &AuthCase) -> CallPolicies {
    let canon = &mut text::Style::canonical();
    let shape = match t.upto(3) {
        0 => PShape::Concatenated,
        1 => PShape::Array,
        _ => PShape::Map,
    };
    let mut shapes: BTreeSet<&'static str> = BTreeSet::new();
    // which policies become template + link
    let mut statics: Vec<(String, &RPolicy)> = Vec::new();
    let mut linked: Vec<(String, RPolicy, Option<Uid>, Option<Uid>)> = Vec::new();
    for (id, p, _) in &c.policies {
        match templatize(p) {
            Some((tp, pb, rb)) if t.bool_p(1, 3) => linked.push((id.clone(), tp, pb, rb)),
            _ => statics.push((id.clone(), p)),
        }
    }
    let mut api = PolicySet::new();
    let mut api_err: Option<String> = None;
    let static_json = match shape {
        PShape::Concatenated => {
            shapes.insert("concatenated-text");
            let txt: String = statics.iter().map(|(_, p)| pemit::policy_text(p, canon)).collect::<Vec<_>>().join("\n");
            // documented composition: PolicySet::from_str (ids policy0..)
            match txt.parse::<PolicySet>() {
                Ok(ps) => api = ps,
                Err(e) => api_err = Some(e.to_string()),
            }
            json!(txt)
        }
        PShape::Array => {
            shapes.insert("array");
            let mut arr = Vec::new();
            let mut pols = Vec::new();
            for (_, p) in &statics {
                let as_json = t.coin();
                if as_json {
                    shapes.insert("json-policy");
                    let j = pemit::policy_json(p);
                    match Policy::from_json(None, j.clone()) {
                        Ok(x) => pols.push(x),
                        Err(e) => api_err = Some(e.to_string()),
                    }
                    arr.push(j);
                } else {
                    let txt = pemit::policy_text(p, canon);
                    match Policy::parse(None, &txt) {
                        Ok(x) => pols.push(x),
                        Err(e) => api_err = Some(e.to_string()),
                    }
                    arr.push(json!(txt));
                }
            }
            match PolicySet::from_policies(pols) {
                Ok(ps) => api = ps,
                Err(e) => api_err = Some(e.to_string()),
            }
            J::Array(arr)
        }
        PShape::Map => {
            shapes.insert("map-ids");
            let mut m = Map::new();
            let mut pols = Vec::new();
            for (id, p) in &statics {
                if t.coin() {
                    shapes.insert("json-policy");
                    let j = pemit::policy_json(p);
                    match Policy::from_json(Some(PolicyId::new(id)), j.clone()) {
                        Ok(x) => pols.push(x),
                        Err(e) => api_err = Some(e.to_string()),
                    }
                    m.insert(id.clone(), j);
                } else {
                    let txt = pemit::policy_text(p, canon);
                    match Policy::parse(Some(PolicyId::new(id)), &txt) {
                        Ok(x) => pols.push(x),
                        Err(e) => api_err = Some(e.to_string()),
                    }
                    m.insert(id.clone(), json!(txt));
                }
            }
            match PolicySet::from_policies(pols) {
                Ok(ps) => api = ps,
                Err(e) => api_err = Some(e.to_string()),
            }
            J::Object(m)
        }
    };
    let mut templates = Map::new();
    let mut links = Vec::new();
    for (id, tp, pb, rb) in &linked {
        shapes.insert("template-link");
        let tid = format!("T-{id}");
        let lid = format!("L-{id}");
        let as_json = t.coin();
        let tpl = if as_json {
            let j = pemit::policy_json(tp);
            templates.insert(tid.clone(), j.clone());
            Template::from_json(Some(PolicyId::new(&tid)), j).map_err(|e| e.to_string())
        } else {
            let txt = pemit::policy_text(tp, canon);
            templates.insert(tid.clone(), json!(txt));
            Template::parse(Some(PolicyId::new(&tid)), &txt).map_err(|e| e.to_string())
        };
        let mut vals = Map::new();
        let mut avals: HashMap<SlotId, EntityUid> = HashMap::new();
        if let Some(u) = pb {
            vals.insert("?principal".into(), uid_json(t, u));
            avals.insert(SlotId::principal(), bridge::euid(u));
        }
        if let Some(u) = rb {
            vals.insert("?resource".into(), uid_json(t, u));
            avals.insert(SlotId::resource(), bridge::euid(u));
        }
        links.push(json!({"templateId": tid, "newId": lid, "values": vals}));
        if api_err.is_none() {
            match tpl {
                Ok(tp) => {
                    if let Err(e) = api.add_template(tp) {
                        api_err = Some(e.to_string());
                    } else if let Err(e) = api.link(PolicyId::new(&tid), PolicyId::new(&lid), avals) {
                        api_err = Some(e.to_string());
                    }
                }
                Err(e) => api_err = Some(e),
            }
        }
    }
    let mut pj = Map::new();
    pj.insert("staticPolicies".into(), static_json);
    if !templates.is_empty() || t.bool_p(1, 4) {
        pj.insert("templates".into(), J::Object(templates));
        pj.insert("templateLinks".into(), J::Array(links));
    }
    CallPolicies { json: J::Object(pj), api: match api_err { Some(e) => Err(e), None => Ok(api) }, shapes }
}

fn answer_norm(ans: &J) -> Result<Norm, Vec<String>> {
    if ans["type"] == "success" {
        let r = &ans["response"];
        let mut errors: Vec<String> = r["diagnostics"]["errors"].as_array().map(|a| a.iter().filter_map(|e| e["policyId"].as_str().map(|s| s.to_string())).collect()).unwrap_or_default();
        errors.sort();
        Ok(Norm {
            allow: r["decision"].as_str().map(|s| s.eq_ignore_ascii_case("allow")).unwrap_or(false),
            reasons: r["diagnostics"]["reason"].as_array().map(|a| a.iter().filter_map(|e| e.as_str().map(|s| s.to_string())).collect()).unwrap_or_default(),
            errors,
        })
    } else {
        Err(ans["errors"].as_array().map(|a| a.iter().map(|e| e["message"].as_str().unwrap_or("").to_string()).collect()).unwrap_or_default())
    }
}

struct Call {
    json: J,
    /// expected answer by composing the public API calls: Ok(response) or Err(reason of failure)
    expect: Result<Norm, String>,
    shapes: BTreeSet<&'static str>,
}

fn build_call(t: &mut Tape, c: &AuthCase, with_policies: bool) -> (Call, CallPolicies) {
    let pols = build_policies(t, c);
    let mut shapes = pols.shapes.clone();
    let with_schema = t.bool_p(3, 4);
    let validate = t.bool_p(2, 3);
    // optionally break request validity (principal of a type the action does not apply to)
    let mut req = c.req.clone();
    let a = c.rs.action(&c.req.action).unwrap();
    let mut bad_request = false;
    if t.bool_p(1, 4) {
        let bad: Vec<&str> = c.rs.entity_types.iter().map(|e| e.name.as_str()).filter(|n| !a.principals.iter().any(|p| p == n)).collect();
        if !bad.is_empty() {
            let k = t.upto(bad.len());
            req.principal = s::gen_uid_of(t, &c.rs, bad[k]);
            bad_request = true;
            shapes.insert("invalid-request");
        }
    }
    let schema_json: Option<J> = if with_schema {
        Some(if t.coin() {
            shapes.insert("schema-cedar-text");
            json!(semit::schema_cedar(&c.rs, None))
        } else {
            shapes.insert("schema-json");
            semit::schema_json(&c.rs, None)
        })
    } else {
        None
    };
    if !validate {
        shapes.insert("validateRequest=false");
    }
    // context: explicit escapes always work; with a schema, implicit forms are allowed too
    let ctx_json = semit::value_json_explicit(&V::Rec(req.context.clone()));
    let ents_json = semit::entities_json_explicit(&c.world);
    let mut call = Map::new();
    call.insert("principal".into(), uid_json(t, &req.principal));
    call.insert("action".into(), uid_json(t, &req.action));
    call.insert("resource".into(), uid_json(t, &req.resource));
    call.insert("context".into(), ctx_json.clone());
    if let Some(sj) = &schema_json {
        call.insert("schema".into(), sj.clone());
    }
    if !validate || t.coin() {
        call.insert("validateRequest".into(), json!(validate));
    }
    if with_policies {
        call.insert("policies".into(), pols.json.clone());
    }
    call.insert("entities".into(), ents_json.clone());
    // expected: the documented composition of API calls
    let schema: Option<&Schema> = if with_schema { Some(&c.schema) } else { None };
    let act = bridge::euid(&req.action);
    let expect = (|| -> Result<Norm, String> {
        let ctx = Context::from_json_value(ctx_json.clone(), schema.map(|s| (s, &act))).map_err(|e| format!("context: {e}"))?;
        let rq = Request::new(bridge::euid(&req.principal), act.clone(), bridge::euid(&req.resource), ctx, if validate { schema } else { None }).map_err(|e| format!("request: {e}"))?;
        let ents = Entities::from_json_value(ents_json.clone(), schema).map_err(|e| format!("entities: {e}"))?;
        let ps = pols.api.as_ref().map_err(|e| format!("policies: {e}"))?;
        Ok(norm(&Authorizer::new().is_authorized(&rq, ps, &ents), &|s: &str| s.to_string()))
    })();
    let _ = bad_request;
    (Call { json: J::Object(call), expect, shapes }, pols)
}

fn compare(rec: &mut Rec<'_>, what: &str, ans: &J, expect: &Result<Norm, String>, call: &J) -> bool {
    match (answer_norm(ans), expect) {
        (Ok(got), Ok(want)) => {
            if &got != want {
                let part = if got.allow != want.allow { "decision" } else if got.reasons != want.reasons { "reasons" } else { "errors" };
                rec.fail(format!("{what}:{part}"), format!("{what} answers {got:?}; composing the public API calls gives {want:?}\ncall: {call}"));
                return false;
            }
        }
        (Err(_), Err(_)) => {}
        (Ok(got), Err(why)) => {
            rec.fail(format!("{what}:success-instead-of-failure"), format!("{what} answers {got:?}; the public API refuses the same inputs: {why}\ncall: {call}"));
            return false;
        }
        (Err(errs), Ok(want)) => {
            rec.fail(format!("{what}:failure-instead-of-success"), format!("{what} fails with {errs:?}; composing the public API calls gives {want:?}\ncall: {call}"));
            return false;
        }
    }
    true
}

fn gen_case(t: &mut Tape, rec: &mut Rec<'_>) -> Option<AuthCase> {
    match scase::gen_auth_case(t, &opts(rec)) {
        Ok(c) => Some(c),
        Err(e) => {
            rec.discard(e.split(':').next().unwrap_or("discard").to_string());
            None
        }
    }
}

fn authorize(t: &mut Tape, rec: &mut Rec<'_>) {
    let Some(c) = gen_case(t, rec) else { return };
    let (call, _) = build_call(t, &c, true);
    for s in &call.shapes {
        rec.label(*s);
    }
    rec.label(if call.expect.is_ok() { "expect-success" } else { "expect-failure" });
    rec.nontrivial = call.shapes.len() >= 2;
    rec.set_key(&call.json.to_string());
    rec.render(|| format!("call: {}\nexpected: {:?}", call.json, call.expect));
    let ans = match ffi::is_authorized_json(call.json.clone()) {
        Ok(a) => a,
        Err(e) => {
            rec.fail("ffi:call-not-deserialisable", format!("is_authorized_json could not read a well-formed call: {e}\n{}", call.json));
            return;
        }
    };
    if !compare(rec, "is_authorized_json", &ans, &call.expect, &call.json) {
        return;
    }
    // string variant
    match ffi::is_authorized_json_str(&call.json.to_string()) {
        Ok(s) => {
            let a2: J = serde_json::from_str(&s).unwrap_or(J::Null);
            compare(rec, "is_authorized_json_str", &a2, &call.expect, &call.json);
        }
        Err(e) => {
            rec.fail("ffi:call-not-deserialisable", format!("is_authorized_json_str: {e}"));
        }
    }
}

static CASE_COUNTER: AtomicU64 = AtomicU64::new(0);

fn stateful(t: &mut Tape, rec: &mut Rec<'_>) {
    let Some(c) = gen_case(t, rec) else { return };
    // names are unique per case: the caches are thread-local and cannot be reset
    let prefix = format!("case{}-", CASE_COUNTER.fetch_add(1, Ordering::Relaxed));
    let names = ["a", "b", "c"];
    // payload pool: 3 policy payloads (valid), 1 invalid; 2 schema payloads, 1 invalid
    let mut payloads: Vec<CallPolicies> = (0..3).map(|_| build_policies(t, &c)).collect();
    // a variation: drop policies from the second payload's API set is not possible; instead make payloads differ via shapes (already random)
    let invalid_policies = json!({"staticPolicies": "permit(principal, action, resource) when { 1 + };"});
    let other_rs = s::gen_schema(t, &SchemaOpts::default());
    let schema_payloads: Vec<(J, Option<Schema>)> = vec![
        (json!(semit::schema_cedar(&c.rs, None)), Some(c.schema.clone())),
        (semit::schema_json(&c.rs, None), Some(c.schema.clone())),
        (semit::schema_json(&other_rs, None), scase::build_schema(&other_rs).ok()),
        (json!("entity User in [Nope];"), None),
    ];
    let mut reg_p: BTreeMap<&str, usize> = BTreeMap::new();
    let mut reg_s: BTreeMap<&str, usize> = BTreeMap::new();
    let nops = 3 + t.upto(rec.size(8, 16));
    let mut log = Vec::new();
    let (mut reregistered, mut auths) = (false, 0);
    let mut invalid_requests = 0;
    for step in 0..nops {
        match t.weighted(&[3, 2, 4]) {
            0 => {
                let name = names[t.upto(3)];
                let k = t.upto(4);
                let (pj, valid) = if k < 3 { (payloads[k].json.clone(), payloads[k].api.is_ok()) } else { (invalid_policies.clone(), false) };
                let parsed: Result<ffi::PolicySet, _> = serde_json::from_value(pj.clone());
                let Ok(ps) = parsed else {
                    rec.fail("ffi:call-not-deserialisable", format!("policy set payload not deserialisable: {pj}"));
                    return;
                };
                let ans = serde_json::to_value(ffi::preparse_policy_set(format!("{prefix}{name}"), ps)).unwrap_or(J::Null);
                let ok = ans["type"] == "success";
                log.push(format!("preparse_policy_set({name}, payload {k}) -> {}", ans["type"]));
                if ok != valid {
                    rec.fail("preparse:outcome", format!("step {step}: preparse_policy_set answers {} for a payload the API {}\n{pj}", ans["type"], if valid { "accepts" } else { "rejects" }));
                    break;
                }
                if ok {
                    if reg_p.contains_key(name) {
                        reregistered = true;
                    }
                    reg_p.insert(name, k);
                }
            }
            1 => {
                let name = names[t.upto(3)];
                let k = t.upto(schema_payloads.len());
                let (sj, parsed) = &schema_payloads[k];
                let sch: Result<ffi::Schema, _> = serde_json::from_value(sj.clone());
                let Ok(sch) = sch else {
                    rec.fail("ffi:call-not-deserialisable", format!("schema payload not deserialisable: {sj}"));
                    return;
                };
                let ans = serde_json::to_value(ffi::preparse_schema(format!("{prefix}{name}"), sch)).unwrap_or(J::Null);
                let ok = ans["type"] == "success";
                log.push(format!("preparse_schema({name}, payload {k}) -> {}", ans["type"]));
                if ok != parsed.is_some() {
                    rec.fail("preparse:outcome", format!("step {step}: preparse_schema answers {} for payload {sj}", ans["type"]));
                    break;
                }
                if ok {
                    if reg_s.contains_key(name) {
                        reregistered = true;
                    }
                    reg_s.insert(name, k);
                }
            }
            _ => {
                auths += 1;
                let pname = names[t.upto(3)];
                let sname = if t.coin() { Some(names[t.upto(3)]) } else { None };
                let validate = t.bool_p(2, 3);
                let ctx_json = semit::value_json_explicit(&V::Rec(c.req.context.clone()));
                let ents_json = semit::entities_json_explicit(&c.world);
                // a quarter of the calls: a principal of a type the action does not apply to (only request validation objects)
                let mut principal = c.req.principal.clone();
                if t.bool_p(1, 4) {
                    let a = c.rs.action(&c.req.action).unwrap();
                    let bad: Vec<&str> = c.rs.entity_types.iter().map(|e| e.name.as_str()).filter(|n| !a.principals.iter().any(|p| p == n)).collect();
                    if !bad.is_empty() {
                        let k = t.upto(bad.len());
                        principal = s::gen_uid_of(t, &c.rs, bad[k]);
                        invalid_requests += 1;
                    }
                }
                let mut call = Map::new();
                call.insert("principal".into(), json!({"type": principal.ty, "id": principal.id}));
                call.insert("action".into(), json!({"type": c.req.action.ty, "id": c.req.action.id}));
                call.insert("resource".into(), json!({"type": c.req.resource.ty, "id": c.req.resource.id}));
                call.insert("context".into(), ctx_json.clone());
                call.insert("preparsedPolicySetId".into(), json!(format!("{prefix}{pname}")));
                if let Some(sn) = sname {
                    call.insert("preparsedSchemaName".into(), json!(format!("{prefix}{sn}")));
                }
                call.insert("validateRequest".into(), json!(validate));
                call.insert("entities".into(), ents_json.clone());
                let call = J::Object(call);
                // model: what the stateless path answers for the currently registered payloads
                let expect = (|| -> Result<Norm, String> {
                    let pk = *reg_p.get(pname).ok_or("policy set name not registered")?;
                    let schema: Option<Schema> = match sname {
                        Some(sn) => Some(schema_payloads[*reg_s.get(sn).ok_or("schema name not registered")?].1.clone().ok_or("unparsed")?),
                        None => None,
                    };
                    let act = bridge::euid(&c.req.action);
                    let ctx = Context::from_json_value(ctx_json.clone(), schema.as_ref().map(|s| (s, &act))).map_err(|e| format!("context: {e}"))?;
                    let rq = Request::new(bridge::euid(&principal), act.clone(), bridge::euid(&c.req.resource), ctx, if validate { schema.as_ref() } else { None }).map_err(|e| format!("request: {e}"))?;
                    let ents = Entities::from_json_value(ents_json.clone(), schema.as_ref()).map_err(|e| format!("entities: {e}"))?;
                    let ps = payloads[pk].api.as_ref().map_err(|e| e.clone())?;
                    Ok(norm(&Authorizer::new().is_authorized(&rq, ps, &ents), &|s: &str| s.to_string()))
                })();
                let parsed: Result<ffi::StatefulAuthorizationCall, _> = serde_json::from_value(call.clone());
                let Ok(sc) = parsed else {
                    rec.fail("ffi:call-not-deserialisable", format!("stateful call not deserialisable: {call}"));
                    return;
                };
                let ans = serde_json::to_value(ffi::stateful_is_authorized(sc)).unwrap_or(J::Null);
                log.push(format!("stateful_is_authorized(policies={pname}, schema={sname:?}, validate={validate}) -> {} ; model {:?}", ans["type"], expect.as_ref().map(|n| n.allow)));
                if !compare(rec, "stateful_is_authorized", &ans, &expect, &call) {
                    break;
                }
            }
        }
    }
    let _ = &mut payloads;
    rec.label_if(reregistered, "re-registration");
    rec.label_if(auths >= 2, "authorizations>=2");
    rec.label_if(invalid_requests > 0, "invalid-request");
    rec.nontrivial = reregistered && auths >= 2;
    rec.set_key(&log);
    rec.render(|| log.join("\n"));
}

fn validate_convert(t: &mut Tape, rec: &mut Rec<'_>) {
    let o = SchemaOpts::default();
    let rs = s::gen_schema(t, &o);
    let Ok(schema) = scase::build_schema(&rs) else {
        rec.discard("gen-rejected");
        return;
    };
    let envs = s::all_envs(&rs);
    if envs.is_empty() {
        rec.discard("no-env");
        return;
    }
    // policies, some with planted mistakes so that validation errors occur
    let n = 1 + t.upto(3);
    let canon = &mut text::Style::canonical();
    let mut texts: Vec<(String, String, RPolicy)> = Vec::new();
    for i in 0..n {
        let (a, p, r) = &envs[t.upto(envs.len())];
        let trap = t.coin();
        let tp = s::gen_policy_for(t, &rs, a, p, r, 2, 3, trap, 0);
        texts.push((format!("p{i}"), pemit::policy_text(&tp.policy, canon), tp.policy));
    }
    let schema_in = if t.coin() { json!(semit::schema_cedar(&rs, None)) } else { semit::schema_json(&rs, None) };
    let mode_strict = true;
    let mut m = Map::new();
    for (id, txt, _) in &texts {
        m.insert(id.clone(), json!(txt));
    }
    let call = json!({"schema": schema_in, "policies": {"staticPolicies": m}, "validationSettings": {"mode": "strict"}});
    rec.set_key(&call.to_string());
    rec.render(|| format!("validate call: {call}"));
    let mut api = PolicySet::new();
    for (id, txt, _) in &texts {
        if let Ok(p) = Policy::parse(Some(PolicyId::new(id)), txt) {
            let _ = api.add(p);
        }
    }
    let res = Validator::new(schema.clone()).validate(&api, if mode_strict { ValidationMode::Strict } else { ValidationMode::Permissive });
    let mut want_errs: Vec<(String, String)> = res.validation_errors().map(|e| (e.policy_id().to_string(), e.to_string())).collect();
    let mut want_warns: Vec<(String, String)> = res.validation_warnings().map(|e| (e.policy_id().to_string(), e.to_string())).collect();
    want_errs.sort();
    want_warns.sort();
    rec.label(if want_errs.is_empty() { "validation:clean" } else { "validation:errors" });
    match ffi::validate_json(call.clone()) {
        Ok(ans) => {
            if ans["type"] != "success" {
                rec.fail("validate_json:failure", format!("validate_json fails on well-formed inputs: {ans}\n{call}"));
                return;
            }
            let take = |k: &str| -> Vec<(String, String)> {
                let mut v: Vec<(String, String)> = ans[k].as_array().map(|a| a.iter().map(|e| (e["policyId"].as_str().unwrap_or("").to_string(), e["error"]["message"].as_str().unwrap_or("").to_string())).collect()).unwrap_or_default();
                v.sort();
                v
            };
            let (ge, gw) = (take("validationErrors"), take("validationWarnings"));
            if ge != want_errs {
                rec.fail("validate_json:errors", format!("validate_json reports {ge:?}; Validator::validate reports {want_errs:?}\n{call}"));
                return;
            }
            if gw != want_warns {
                rec.fail("validate_json:warnings", format!("validate_json warnings {gw:?}; Validator::validate {want_warns:?}\n{call}"));
                return;
            }
        }
        Err(e) => {
            rec.fail("ffi:call-not-deserialisable", format!("validate_json: {e}\n{call}"));
            return;
        }
    }
    // conversions and formatting on the first policy
    let (_, txt0, p0) = &texts[0];
    let api_pol = Policy::parse(Some(PolicyId::new("policy0")), txt0).unwrap();
    let ans = serde_json::to_value(ffi::policy_to_json(serde_json::from_value(json!(txt0)).unwrap())).unwrap_or(J::Null);
    if ans["type"] == "success" {
        let back = Policy::from_json(Some(PolicyId::new("policy0")), ans["json"].clone());
        match back {
            Ok(b) => {
                if let Err(e) = bridge::template_matches(b.as_ref().template(), p0) {
                    rec.fail("policy_to_json", format!("policy_to_json output does not denote the input policy: {e}\n{txt0}\n{}", ans["json"]));
                    return;
                }
            }
            Err(e) => {
                rec.fail("policy_to_json", format!("policy_to_json output is rejected by from_json: {e}\n{}", ans["json"]));
                return;
            }
        }
        if api_pol.to_json().ok().as_ref() != Some(&ans["json"]) {
            rec.fail("policy_to_json", format!("policy_to_json differs from Policy::to_json: {} vs {:?}", ans["json"], api_pol.to_json().ok()));
            return;
        }
    } else {
        rec.fail("policy_to_json", format!("policy_to_json failed on a valid policy: {ans}\n{txt0}"));
        return;
    }
    let pj = pemit::policy_json(p0);
    let ans = serde_json::to_value(ffi::policy_to_text(serde_json::from_value(pj.clone()).unwrap())).unwrap_or(J::Null);
    match ans["text"].as_str() {
        Some(txt) if ans["type"] == "success" => match cedar_policy_core::parser::parse_policy_or_template(None, txt) {
            Ok(tp) => {
                if let Err(e) = bridge::template_matches(&tp, p0) {
                    rec.fail("policy_to_text", format!("policy_to_text output does not denote the input policy: {e}\n{pj}\n{txt}"));
                    return;
                }
            }
            Err(e) => {
                rec.fail("policy_to_text", format!("policy_to_text output does not parse: {e}\n{txt}"));
                return;
            }
        },
        _ => {
            rec.fail("policy_to_text", format!("policy_to_text failed on a valid JSON policy: {ans}\n{pj}"));
            return;
        }
    }
    // schema conversions
    let st = serde_json::to_value(ffi::schema_to_text(serde_json::from_value(semit::schema_json(&rs, None)).unwrap())).unwrap_or(J::Null);
    match st["text"].as_str() {
        Some(txt) if st["type"] == "success" => match Schema::from_cedarschema_str(txt) {
            Ok((s2, _)) => {
                if s2.as_ref() != schema.as_ref() {
                    rec.fail("schema_to_text", format!("schema_to_text output loads to a different schema\n{txt}"));
                    return;
                }
            }
            Err(e) => {
                rec.fail("schema_to_text", format!("schema_to_text output does not load: {e}\n{txt}"));
                return;
            }
        },
        _ => {
            rec.label("schema_to_text:failure");
        }
    }
    let sj = serde_json::to_value(ffi::schema_to_json(serde_json::from_value(json!(semit::schema_cedar(&rs, None))).unwrap())).unwrap_or(J::Null);
    if sj["type"] == "success" {
        match Schema::from_json_value(sj["json"].clone()) {
            Ok(s2) => {
                if s2.as_ref() != schema.as_ref() {
                    rec.fail("schema_to_json", format!("schema_to_json output loads to a different schema\n{}", sj["json"]));
                    return;
                }
            }
            Err(e) => {
                rec.fail("schema_to_json", format!("schema_to_json output does not load: {e}\n{}", sj["json"]));
                return;
            }
        }
    } else {
        rec.label("schema_to_json:failure");
    }
    // formatting
    let (w, ind) = (*t.pick(&[20usize, 40, 80, 120]), *t.pick(&[0isize, 2, 4]));
    let all_txt: String = texts.iter().map(|(_, t, _)| t.clone()).collect::<Vec<_>>().join("\n");
    let fa = ffi::format_json(json!({"policyText": all_txt, "lineWidth": w, "indentWidth": ind})).unwrap_or(J::Null);
    let direct = cedar_policy_formatter::policies_str_to_pretty(&all_txt, &cedar_policy_formatter::Config { line_width: w, indent_width: ind });
    match (fa["formatted_policy"].as_str(), direct) {
        (Some(a), Ok(b)) if fa["type"] == "success" => {
            if a != b {
                rec.fail("format_json", format!("format_json differs from the formatter API\n{a}\n---\n{b}"));
                return;
            }
        }
        (_, Err(_)) if fa["type"] == "failure" => {}
        (a, b) => {
            rec.fail("format_json", format!("format_json {:?} vs formatter API ok={}", a.map(|_| fa["type"].clone()), b.is_ok()));
            return;
        }
    }
    // parse checks
    let cp = ffi::check_parse_policy_set_json(json!({"staticPolicies": all_txt})).unwrap_or(J::Null);
    if cp["type"] != "success" {
        rec.fail("check_parse_policy_set", format!("check_parse_policy_set_json rejects parseable text: {cp}"));
        return;
    }
    let broken = format!("{all_txt} permit(");
    let cp = ffi::check_parse_policy_set_json(json!({"staticPolicies": broken})).unwrap_or(J::Null);
    if cp["type"] != "failure" {
        rec.fail("check_parse_policy_set", format!("check_parse_policy_set_json accepts unparseable text: {cp}"));
        return;
    }
    rec.nontrivial = true;
}

pub fn property() -> Property {
    Property {
        id: "C19",
        rule: "authorize: C16-style case (schema, strictly valid policies, conformant store, request) turned into an is_authorized_json call in every accepted shape: static policies as one concatenated text / array / id->policy map, each policy as text or JSON, \
               some policies rewritten as template + templateLinks with the same meaning, schema as Cedar text / JSON / absent, validateRequest true / false / defaulted, entity uids in {type,id} or __entity form, a quarter of the calls with a request the schema rejects. \
               The reference answer is the same documented composition of public API calls (ids are never invented by the oracle); decision, reasons, error ids or success/failure must agree; is_authorized_json_str likewise. \
               stateful: histories of preparse_policy_set / preparse_schema (valid and invalid payloads, 3 names, re-registration) and stateful_is_authorized against a name -> last successfully registered payload model. \
               validate-convert: validate_json vs Validator::validate (policy id + message of every error/warning), policy_to_json / policy_to_text / schema_to_text / schema_to_json / format_json / check_parse_policy_set_json vs the API. \
               cli: the real `cedar` binary (built from the current tree) run as a subprocess on temp files: authorize exit status 0/2/1 and printed ALLOW/DENY, validate 0/3, check-parse 0/1, format and format --check, translate-policy, translate-schema against the API. Non-trivial = a call using >=2 input shapes; a stateful history with a re-registration between two authorizations.",
        assumptions: &["the documented composition of API calls is the reference", "FFI caches are thread-local: names are namespaced per case"],
        subs: vec![
            SubCheck { name: "authorize", cases: (20_000, 400_000), tape_len: 4500, run: authorize, min_labels: &[("map-ids", 4000), ("json-policy", 4000), ("template-link", 2000), ("validateRequest=false", 4000), ("invalid-request", 2000), ("expect-failure", 2000), ("expect-success", 8000)] },
            SubCheck { name: "stateful", cases: (6_000, 120_000), tape_len: 6000, run: stateful, min_labels: &[("re-registration", 2000), ("authorizations>=2", 3000), ("invalid-request", 1500)] },
            SubCheck { name: "validate-convert", cases: (8_000, 160_000), tape_len: 3500, run: validate_convert, min_labels: &[("validation:errors", 1500), ("validation:clean", 1500)] },
            cli_subcheck(),
        ],
    }
}

// ---------------------------------------------------------------------------------------------
// CLI (subprocess of the real `cedar` binary built from the current tree)

fn cli_bin() -> String {
    std::env::var("VERIF_CLI_BIN").unwrap_or_else(|_| "/verif/harness/target-cli/release/cedar".to_string())
}

fn run_cli(args: &[&str]) -> Result<(i32, String, String), String> {
    let out = std::process::Command::new(cli_bin()).args(args).env("NO_COLOR", "1").output().map_err(|e| format!("cannot run {}: {e}", cli_bin()))?;
    Ok((out.status.code().unwrap_or(-1), String::from_utf8_lossy(&out.stdout).to_string(), String::from_utf8_lossy(&out.stderr).to_string()))
}

static CLI_COUNTER: AtomicU64 = AtomicU64::new(0);

fn cli(t: &mut Tape, rec: &mut Rec<'_>) {
    if !std::path::Path::new(&cli_bin()).exists() {
        rec.discard("cli-binary-missing");
        return;
    }
    let Some(c) = gen_case(t, rec) else { return };
    let dir = format!("/verif/harness/tmp/cli-{}-{}", std::process::id(), CLI_COUNTER.fetch_add(1, Ordering::Relaxed));
    if std::fs::create_dir_all(&dir).is_err() {
        rec.discard("tmpdir");
        return;
    }
    struct Cleanup(String);
    impl Drop for Cleanup {
        fn drop(&mut self) {
            let _ = std::fs::remove_dir_all(&self.0);
        }
    }
    let _cleanup = Cleanup(dir.clone());
    let canon = &mut text::Style::canonical();
    let ptxt: String = c.policies.iter().map(|(_, p, _)| pemit::policy_text(p, canon)).collect::<Vec<_>>().join("\n");
    let pfile = format!("{dir}/policies.cedar");
    let efile = format!("{dir}/entities.json");
    let cfile = format!("{dir}/context.json");
    let schema_cedar = t.coin();
    let sfile = format!("{dir}/schema.{}", if schema_cedar { "cedarschema" } else { "json" });
    let _ = std::fs::write(&pfile, &ptxt);
    let _ = std::fs::write(&efile, semit::entities_json_explicit(&c.world).to_string());
    let ctx_json = semit::value_json_explicit(&V::Rec(c.req.context.clone()));
    let _ = std::fs::write(&cfile, ctx_json.to_string());
    let _ = std::fs::write(&sfile, if schema_cedar { semit::schema_cedar(&c.rs, None) } else { semit::schema_json(&c.rs, None).to_string() });
    let sfmt = if schema_cedar { "cedar" } else { "json" };
    let (p, a, r) = (bridge::euid(&c.req.principal).to_string(), bridge::euid(&c.req.action).to_string(), bridge::euid(&c.req.resource).to_string());
    rec.set_key(&(ptxt.clone(), format!("{:?}", c.req)));
    rec.render(|| c.render());
    // ---- authorize
    let with_schema = t.bool_p(2, 3);
    let api_ps: PolicySet = match ptxt.parse() {
        Ok(p) => p,
        Err(_) => return,
    };
    let schema = if with_schema { Some(&c.schema) } else { None };
    let expect = (|| -> Result<Norm, String> {
        let act = bridge::euid(&c.req.action);
        let ctx = Context::from_json_value(ctx_json.clone(), schema.map(|s| (s, &act))).map_err(|e| e.to_string())?;
        let rq = Request::new(bridge::euid(&c.req.principal), act.clone(), bridge::euid(&c.req.resource), ctx, schema).map_err(|e| e.to_string())?;
        let ents = Entities::from_json_value(semit::entities_json_explicit(&c.world), schema).map_err(|e| e.to_string())?;
        Ok(norm(&Authorizer::new().is_authorized(&rq, &api_ps, &ents), &|s: &str| s.to_string()))
    })();
    let mut args: Vec<&str> = vec!["authorize", "--policies", &pfile, "--entities", &efile, "-l", &p, "-a", &a, "-r", &r, "-c", &cfile];
    if with_schema {
        args.extend(["--schema", &sfile, "--schema-format", sfmt]);
    }
    match run_cli(&args) {
        Ok((code, out, err)) => {
            let want = match &expect {
                Ok(n) if n.allow => 0,
                Ok(_) => 2,
                Err(_) => 1,
            };
            rec.label(match want {
                0 => "cli:allow",
                2 => "cli:deny",
                _ => "cli:failure",
            });
            let word_ok = match want {
                0 => out.contains("ALLOW"),
                2 => out.contains("DENY"),
                _ => true,
            };
            if code != want || !word_ok {
                rec.fail("cli:authorize", format!("`cedar authorize` exits with {code} and prints {out:?} (stderr {err:?}); the API response is {expect:?} (expected exit {want})\n{}", c.render()));
                return;
            }
        }
        Err(e) => {
            rec.discard("cli-spawn-failed");
            rec.render(|| e);
            return;
        }
    }
    // ---- validate
    let vres = Validator::new(c.schema.clone()).validate(&api_ps, ValidationMode::Strict);
    if let Ok((code, out, err)) = run_cli(&["validate", "--schema", &sfile, "--schema-format", sfmt, "--policies", &pfile]) {
        let want = if vres.validation_passed() { 0 } else { 3 };
        if code != want {
            rec.fail("cli:validate", format!("`cedar validate` exits with {code} ({out:?} {err:?}); Validator::validate passed = {}", vres.validation_passed()));
            return;
        }
    }
    // a policy that must fail validation
    let bad = format!("{dir}/bad.cedar");
    let _ = std::fs::write(&bad, format!("{ptxt}\npermit(principal, action, resource) when {{ principal.no_such_attribute_xyz == 1 }};"));
    if let Ok((code, _, _)) = run_cli(&["validate", "--schema", &sfile, "--schema-format", sfmt, "--policies", &bad]) {
        if code != 3 {
            rec.fail("cli:validate", format!("`cedar validate` exits with {code} for a policy set with an undeclared attribute access (expected 3)"));
            return;
        }
    }
    // ---- check-parse
    if let Ok((code, _, err)) = run_cli(&["check-parse", "--policies", &pfile]) {
        if code != 0 {
            rec.fail("cli:check-parse", format!("`cedar check-parse` exits with {code} on parseable policies: {err}"));
            return;
        }
    }
    let broken = format!("{dir}/broken.cedar");
    let _ = std::fs::write(&broken, format!("{ptxt}\npermit(principal, action"));
    if let Ok((code, _, _)) = run_cli(&["check-parse", "--policies", &broken]) {
        if code != 1 {
            rec.fail("cli:check-parse", format!("`cedar check-parse` exits with {code} on unparseable policies (expected 1)"));
            return;
        }
    }
    // ---- format / format --check
    if let (Ok((code, out, _)), Ok(direct)) = (run_cli(&["format", "--policies", &pfile]), cedar_policy_formatter::policies_str_to_pretty(&ptxt, &cedar_policy_formatter::Config::default())) {
        if code != 0 || out.trim_end() != direct.trim_end() {
            rec.fail("cli:format", format!("`cedar format` (exit {code}) prints\n{out}\nthe formatter API gives\n{direct}"));
            return;
        }
        let ffile = format!("{dir}/formatted.cedar");
        let _ = std::fs::write(&ffile, &direct);
        if let Ok((code, _, err)) = run_cli(&["format", "--policies", &ffile, "--check"]) {
            if code != 0 {
                rec.fail("cli:format-check", format!("`cedar format --check` exits with {code} on text produced by the formatter: {err}\n{direct}"));
                return;
            }
        }
    }
    // ---- translate-policy / translate-schema
    if let Ok((code, out, err)) = run_cli(&["translate-policy", "--direction", "cedar-to-json", "--policies", &pfile]) {
        let ok = code == 0 && serde_json::from_str::<J>(&out).ok().and_then(|j| PolicySet::from_json_value(j).ok()).map(|ps| crate::props::c06::sets_equal(&api_ps, &ps).is_ok()).unwrap_or(false);
        if !ok {
            rec.fail("cli:translate-policy", format!("`cedar translate-policy --direction cedar-to-json` (exit {code}) does not produce a policy set equal to the input: {err}\n{out}"));
            return;
        }
    }
    let dirn = if schema_cedar { "cedar-to-json" } else { "json-to-cedar" };
    if let Ok((code, out, err)) = run_cli(&["translate-schema", "--direction", dirn, "--schema", &sfile]) {
        let loaded = if schema_cedar { Schema::from_json_str(&out).ok() } else { Schema::from_cedarschema_str(&out).ok().map(|x| x.0) };
        if code != 0 || loaded.as_ref().map(|s| s.as_ref() != c.schema.as_ref()).unwrap_or(true) {
            rec.fail("cli:translate-schema", format!("`cedar translate-schema --direction {dirn}` (exit {code}) does not produce an equal schema: {err}\n{out}"));
            return;
        }
    }
    rec.nontrivial = true;
}

pub fn cli_subcheck() -> SubCheck {
    SubCheck { name: "cli", cases: (300, 5000), tape_len: 4500, run: cli, min_labels: &[("cli:allow", 10), ("cli:deny", 50)] }
}
