//! C18 — symbolic compilation agrees with evaluation on concrete environments.

use crate::engine::{Property, Rec, SubCheck};
use crate::gen::s::SchemaOpts;
use crate::props::scase::{self, AuthCase, AuthOpts};
use crate::refmodel::*;
use crate::tape::Tape;
use cedar_policy::{Authorizer, Decision, EntityTypeName, Policy, PolicyId, PolicySet, RequestEnv};
use cedar_policy_symcc::term::Term;
use cedar_policy_symcc::{
    always_allows_asserts, always_denies_asserts, always_matches_asserts, disjoint_asserts, equivalent_asserts, implies_asserts, never_errors_asserts, never_matches_asserts, CompiledPolicy, CompiledPolicySet, Env, SymEnv,
};
use std::collections::BTreeSet;
use std::str::FromStr;

/// Drives a future that never waits on anything external (the writer "solver" below is an in-memory buffer).
fn block_on<F: std::future::Future>(f: F) -> F::Output {
    let mut f = std::pin::pin!(f);
    let w = std::task::Waker::noop();
    let mut cx = std::task::Context::from_waker(w);
    let mut spins = 0u32;
    loop {
        if let std::task::Poll::Ready(x) = f.as_mut().poll(&mut cx) {
            return x;
        }
        spins += 1;
        assert!(spins < 1_000_000, "future did not complete");
    }
}

/// verdict of the unoptimised pipeline (`symcc::compiler` + `symcc::verifier`, reached through the deprecated
/// `check_*` methods): `Ok(true)` = unsatisfiable = the condition holds. On a literal environment the solver must not be
/// needed; the in-memory writer solver answers "unknown", which is read as "did not reduce to constants".
fn unopt<E: std::fmt::Display>(r: Result<bool, E>) -> Result<Verdict, String> {
    match r {
        Ok(true) => Ok(Verdict::Holds),
        Ok(false) => Ok(Verdict::Refuted),
        Err(e) => {
            let m = e.to_string();
            if m.to_lowercase().contains("unknown") {
                Ok(Verdict::NotLiteral)
            } else {
                Err(m)
            }
        }
    }
}

#[derive(Debug, PartialEq, Eq, Clone, Copy)]
enum Verdict {
    /// all asserts are literal `true`: this environment refutes the verification condition
    Refuted,
    /// some assert is literal `false`: the condition holds in this environment
    Holds,
    /// not all asserts reduced to constants
    NotLiteral,
    /// literal, but neither all-true nor containing a false (cannot happen for booleans)
    Odd,
}

fn read(asserts: &[Term]) -> Verdict {
    if !asserts.iter().all(|t| t.is_literal()) {
        return Verdict::NotLiteral;
    }
    let t: Term = true.into();
    let f: Term = false.into();
    if asserts.iter().all(|x| x == &t) {
        Verdict::Refuted
    } else if asserts.iter().any(|x| x == &f) {
        Verdict::Holds
    } else {
        Verdict::Odd
    }
}

fn uids_in(v: &V, out: &mut BTreeSet<Uid>) {
    match v {
        V::Euid(u) => {
            out.insert(u.clone());
        }
        V::Set(xs) => xs.iter().for_each(|x| uids_in(x, out)),
        V::Rec(m) => m.values().for_each(|x| uids_in(x, out)),
        _ => {}
    }
}

/// does the case contain a reference (request, context, attribute/tag value, parent, policy literal) to an entity without a record?
fn has_dangling_reference(c: &AuthCase) -> bool {
    let mut refs = crate::props::c15::all_uids(c);
    refs.retain(|u| !u.ty.ends_with("Action"));
    let mut extra = BTreeSet::new();
    uids_in(&V::Rec(c.req.context.clone()), &mut extra);
    refs.extend(extra);
    refs.iter().any(|u| !c.world.entities.contains_key(u))
}

fn case(t: &mut Tape, rec: &mut Rec<'_>) {
    let o = AuthOpts { closed_16: 15, schema: SchemaOpts::default(), max_policies: rec.size(3, 4), depth: rec.size(2, 3), path_budget: 3, traps: false };
    let c = match scase::gen_auth_case(t, &o) {
        Ok(c) => c,
        Err(e) => {
            rec.discard(e.split(':').next().unwrap_or("discard").to_string());
            return;
        }
    };
    rec.set_key(&c.render());
    rec.render(|| c.render());
    let dangling = has_dangling_reference(&c);
    rec.label(if dangling { "store:dangling-reference" } else { "store:closed" });
    let req_env = RequestEnv::new(EntityTypeName::from_str(&c.req.principal.ty).unwrap(), crate::bridge::euid(&c.req.action), EntityTypeName::from_str(&c.req.resource.ty).unwrap());
    let env = Env { request: c.creq.clone(), entities: c.ents.clone() };
    let symenv = match SymEnv::from_concrete_env(&req_env, &c.schema, &env) {
        Ok(s) => s,
        Err(e) => {
            rec.label(format!("skip:symbolize:{}", e.to_string().split(':').next().unwrap_or("").chars().take(40).collect::<String>()));
            return;
        }
    };
    let auth = Authorizer::new();
    let fail = |rec: &mut Rec<'_>, what: &str, detail: String| {
        // root-cause signature: a disagreement on a store with a dangling entity reference is the known limitation of the symbolic model
        let sig = if dangling { "dangling-entity-reference".to_string() } else { format!("vc:{what}") };
        rec.fail(sig, format!("{detail}\n{}", c.render()));
    };
    let mut flips = 0;
    for (id, _, _) in &c.policies {
        let p: &Policy = c.pset.policy(&PolicyId::new(id)).unwrap();
        let single = PolicySet::from_policies([p.clone()]).unwrap();
        let resp = auth.is_authorized(&c.creq, &single, &c.ents);
        let errs = resp.diagnostics().errors().count() > 0;
        let matches = resp.diagnostics().reason().count() > 0;
        let compiled = match CompiledPolicy::compile_with_custom_symenv(p, &req_env, &c.schema, symenv.clone()) {
            Ok(cp) => cp,
            Err(e) => {
                rec.label(format!("skip:compile:{}", e.to_string().chars().take(40).collect::<String>()));
                continue;
            }
        };
        rec.label(if errs { "policy:errors" } else if matches { "policy:matches" } else { "policy:no-match" });
        if errs || matches {
            flips += 1;
        }
        let checks: [(&str, Verdict, bool); 3] = [
            // (name, verdict, "condition holds in this environment" according to concrete evaluation)
            ("never_errors", read(never_errors_asserts(&compiled).asserts()), !errs),
            ("always_matches", read(always_matches_asserts(&compiled).asserts()), matches),
            ("never_matches", read(never_matches_asserts(&compiled).asserts()), !matches),
        ];
        for (name, v, holds) in checks {
            let want = if holds { Verdict::Holds } else { Verdict::Refuted };
            if v != want {
                fail(rec, name, format!("policy {id}: `{name}` reads {v:?} on the literal environment; concrete evaluation: errors={errs} matches={matches} (expected {want:?})"));
                if rec.failed() {
                    return;
                }
            }
        }
    }
    // the same three conditions through the unoptimised compiler
    #[allow(deprecated)]
    {
        use cedar_policy_symcc::{solver::WriterSolver, CedarSymCompiler, WellTypedPolicy};
        let mut sc = CedarSymCompiler::new(WriterSolver { w: Vec::<u8>::new() }).expect("writer solver");
        for (id, _, _) in &c.policies {
            let p: &Policy = c.pset.policy(&PolicyId::new(id)).unwrap();
            let single = PolicySet::from_policies([p.clone()]).unwrap();
            let resp = auth.is_authorized(&c.creq, &single, &c.ents);
            let errs = resp.diagnostics().errors().count() > 0;
            let matches = resp.diagnostics().reason().count() > 0;
            let wtp = match WellTypedPolicy::from_policy(p, &req_env, &c.schema) {
                Ok(w) => w,
                Err(e) => {
                    rec.label(format!("skip:unopt-welltyped:{}", e.to_string().chars().take(40).collect::<String>()));
                    continue;
                }
            };
            let checks: [(&str, Result<Verdict, String>, bool); 3] = [
                ("unopt:never_errors", unopt(block_on(sc.check_never_errors(&wtp, &symenv))), !errs),
                ("unopt:always_matches", unopt(block_on(sc.check_always_matches(&wtp, &symenv))), matches),
                ("unopt:never_matches", unopt(block_on(sc.check_never_matches(&wtp, &symenv))), !matches),
            ];
            for (name, v, holds) in checks {
                let v = match v {
                    Ok(v) => v,
                    Err(e) => {
                        rec.label(format!("skip:unopt-compile:{}", e.chars().take(40).collect::<String>()));
                        continue;
                    }
                };
                rec.label("unopt:checked");
                let want = if holds { Verdict::Holds } else { Verdict::Refuted };
                if v != want {
                    fail(rec, name, format!("policy {id}: `{name}` reads {v:?} on the literal environment; concrete evaluation: errors={errs} matches={matches} (expected {want:?})"));
                    if rec.failed() {
                        return;
                    }
                }
            }
        }
    }
    // policy-set conditions: the whole set vs. a subset
    let sub_ids: Vec<&String> = c.policies.iter().map(|(i, _, _)| i).filter(|_| t.coin()).collect();
    let sub = PolicySet::from_policies(sub_ids.iter().map(|i| c.pset.policy(&PolicyId::new(*i)).unwrap().clone())).unwrap();
    let d_all = auth.is_authorized(&c.creq, &c.pset, &c.ents).decision() == Decision::Allow;
    let d_sub = auth.is_authorized(&c.creq, &sub, &c.ents).decision() == Decision::Allow;
    rec.label(if d_all { "set:allow" } else { "set:deny" });
    match (CompiledPolicySet::compile_with_custom_symenv(&c.pset, &req_env, &c.schema, symenv.clone()), CompiledPolicySet::compile_with_custom_symenv(&sub, &req_env, &c.schema, symenv.clone())) {
        (Ok(ca), Ok(cs)) => {
            let checks: [(&str, Verdict, bool); 8] = [
                ("always_allows", read(always_allows_asserts(&ca).asserts()), d_all),
                ("always_denies", read(always_denies_asserts(&ca).asserts()), !d_all),
                ("implies(all,sub)", read(implies_asserts(&ca, &cs).asserts()), !d_all || d_sub),
                ("implies(sub,all)", read(implies_asserts(&cs, &ca).asserts()), !d_sub || d_all),
                ("equivalent", read(equivalent_asserts(&ca, &cs).asserts()), d_all == d_sub),
                ("disjoint", read(disjoint_asserts(&ca, &cs).asserts()), !(d_all && d_sub)),
                ("always_allows(sub)", read(always_allows_asserts(&cs).asserts()), d_sub),
                ("always_denies(sub)", read(always_denies_asserts(&cs).asserts()), !d_sub),
            ];
            for (name, v, holds) in checks {
                let want = if holds { Verdict::Holds } else { Verdict::Refuted };
                if v != want {
                    fail(rec, name, format!("`{name}` reads {v:?} on the literal environment; concrete decisions: all={} sub({sub_ids:?})={} (expected {want:?})", if d_all { "Allow" } else { "Deny" }, if d_sub { "Allow" } else { "Deny" }));
                    if rec.failed() {
                        return;
                    }
                }
            }
        }
        (a, b) => {
            rec.label(format!("skip:compile-set:{}", a.err().or(b.err()).map(|e| e.to_string().chars().take(40).collect::<String>()).unwrap_or_default()));
        }
    }
    #[allow(deprecated)]
    {
        use cedar_policy_symcc::{solver::WriterSolver, CedarSymCompiler, WellTypedPolicies};
        let mut sc = CedarSymCompiler::new(WriterSolver { w: Vec::<u8>::new() }).expect("writer solver");
        if let (Ok(wa), Ok(ws)) = (WellTypedPolicies::from_policies(&c.pset, &req_env, &c.schema), WellTypedPolicies::from_policies(&sub, &req_env, &c.schema)) {
            let checks: [(&str, Result<Verdict, String>, bool); 6] = [
                ("unopt:always_allows", unopt(block_on(sc.check_always_allows(&wa, &symenv))), d_all),
                ("unopt:always_denies", unopt(block_on(sc.check_always_denies(&wa, &symenv))), !d_all),
                ("unopt:implies(all,sub)", unopt(block_on(sc.check_implies(&wa, &ws, &symenv))), !d_all || d_sub),
                ("unopt:implies(sub,all)", unopt(block_on(sc.check_implies(&ws, &wa, &symenv))), !d_sub || d_all),
                ("unopt:equivalent", unopt(block_on(sc.check_equivalent(&wa, &ws, &symenv))), d_all == d_sub),
                ("unopt:disjoint", unopt(block_on(sc.check_disjoint(&wa, &ws, &symenv))), !(d_all && d_sub)),
            ];
            for (name, v, holds) in checks {
                let Ok(v) = v else {
                    rec.label("skip:unopt-compile-set");
                    continue;
                };
                rec.label("unopt:set-checked");
                let want = if holds { Verdict::Holds } else { Verdict::Refuted };
                if v != want {
                    fail(rec, name, format!("`{name}` reads {v:?} on the literal environment; concrete decisions: all={} sub({sub_ids:?})={} (expected {want:?})", if d_all { "Allow" } else { "Deny" }, if d_sub { "Allow" } else { "Deny" }));
                    if rec.failed() {
                        return;
                    }
                }
            }
        }
    }
    rec.nontrivial = flips > 0 && (c.uses_optional || c.uses_tags || c.max_derefs > 0);
}


// ---------------------------------------------------------------------------------------------------------------
// symbolic environments, decided by the local SMT solver (cvc5): the verification conditions over the *fully symbolic*
// environment of the request's (principal type, action, resource type) must be consistent with concrete evaluation:
//   * "holds for all well-formed inputs" (unsat) may not be contradicted by the generated concrete request and store;
//   * a counterexample handed back must, evaluated concretely, refute the condition.
// This reaches what the literal-environment check cannot: the term simplifications for non-literal terms, the SMT
// encoding and the model decoder.

use cedar_policy_symcc::solver::LocalSolver;
use cedar_policy_symcc::CedarSymCompiler;
use std::cell::RefCell;

thread_local! {
    static RT: tokio::runtime::Runtime = tokio::runtime::Builder::new_current_thread().enable_all().build().expect("tokio runtime");
    static SOLVER: RefCell<Option<CedarSymCompiler<LocalSolver>>> = const { RefCell::new(None) };
}

fn with_solver<R>(f: impl FnOnce(&mut CedarSymCompiler<LocalSolver>, &tokio::runtime::Runtime) -> R) -> Option<R> {
    SOLVER.with(|cell| {
        let mut slot = cell.borrow_mut();
        if slot.is_none() {
            // a per-query time limit keeps hard queries from stalling a worker; hitting it is "unknown", i.e. a skip
            let solver = RT.with(|rt| {
                let _g = rt.enter();
                LocalSolver::cvc5_with_args(["--tlimit=3000"])
            });
            match solver.ok().and_then(|s| CedarSymCompiler::new(s).ok()) {
                Some(sc) => *slot = Some(sc),
                None => return None,
            }
        }
        let sc = slot.as_mut().unwrap();
        Some(RT.with(|rt| f(sc, rt)))
    })
}

fn drop_solver() {
    SOLVER.with(|cell| {
        let taken = cell.borrow_mut().take();
        RT.with(|rt| {
            let _g = rt.enter();
            drop(taken);
        });
    });
}

fn concrete_single(auth: &Authorizer, p: &Policy, req: &cedar_policy::Request, ents: &cedar_policy::Entities) -> (bool, bool) {
    let single = PolicySet::from_policies([p.clone()]).unwrap();
    let resp = auth.is_authorized(req, &single, ents);
    (resp.diagnostics().errors().count() > 0, resp.diagnostics().reason().count() > 0)
}

fn symbolic_case(t: &mut Tape, rec: &mut Rec<'_>) {
    let o = AuthOpts { closed_16: 16, schema: SchemaOpts::default(), max_policies: 2, depth: rec.size(2, 2), path_budget: 3, traps: false };
    let c = match scase::gen_auth_case(t, &o) {
        Ok(c) => c,
        Err(e) => {
            rec.discard(e.split(':').next().unwrap_or("discard").to_string());
            return;
        }
    };
    rec.set_key(&c.render());
    rec.render(|| c.render());
    if has_dangling_reference(&c) {
        // outside the inputs the verification conditions speak about (see the known finding of the literal check)
        rec.discard("dangling-reference");
        return;
    }
    let req_env = RequestEnv::new(EntityTypeName::from_str(&c.req.principal.ty).unwrap(), crate::bridge::euid(&c.req.action), EntityTypeName::from_str(&c.req.resource.ty).unwrap());
    let auth = Authorizer::new();
    let mut answered = 0;
    for (id, _, _) in &c.policies {
        let p: &Policy = c.pset.policy(&PolicyId::new(id)).unwrap();
        let (errs, matches) = concrete_single(&auth, p, &c.creq, &c.ents);
        let cp = match CompiledPolicy::compile(p, &req_env, &c.schema) {
            Ok(cp) => cp,
            Err(e) => {
                rec.label(format!("skip:compile:{}", e.to_string().chars().take(40).collect::<String>()));
                continue;
            }
        };
        // (name, does the generated concrete input satisfy the condition?, what a counterexample must show)
        for which in 0..3 {
            let (name, holds_here) = match which {
                0 => ("never_errors", !errs),
                1 => ("always_matches", matches),
                _ => ("never_matches", !matches),
            };
            let r = with_solver(|sc, rt| {
                rt.block_on(async {
                    match which {
                        0 => sc.check_never_errors_with_counterexample_opt(&cp).await,
                        1 => sc.check_always_matches_with_counterexample_opt(&cp).await,
                        _ => sc.check_never_matches_with_counterexample_opt(&cp).await,
                    }
                })
            });
            let r = match r {
                None => {
                    rec.discard("no-solver");
                    return;
                }
                Some(Err(e)) => {
                    let m = e.to_string();
                    rec.label(format!("skip:solver:{}", m.chars().take(40).collect::<String>()));
                    // a solver that reported an error may be in an undefined state
                    drop_solver();
                    continue;
                }
                Some(Ok(r)) => r,
            };
            answered += 1;
            rec.label("solver:answered");
            match r {
                None => {
                    rec.label(format!("{name}:holds"));
                    if !holds_here {
                        rec.fail(format!("solver:unsound:{name}"), format!("policy {id}: `{name}` is reported to hold for every well-formed input of the environment, but on the generated request and store concrete evaluation gives errors={errs} matches={matches}\n{}", c.render()));
                        return;
                    }
                }
                Some(cex) => {
                    rec.label(format!("{name}:counterexample"));
                    let (e2, m2) = concrete_single(&auth, p, &cex.request, &cex.entities);
                    let refutes = match which {
                        0 => e2,
                        1 => !m2,
                        _ => m2,
                    };
                    if !refutes {
                        rec.fail(format!("solver:bad-counterexample:{name}"), format!("policy {id}: the counterexample returned for `{name}` does not refute it: concrete evaluation on it gives errors={e2} matches={m2}\ncounterexample:\n{cex}\n{}", c.render()));
                        return;
                    }
                }
            }
        }
    }
    // policy sets: the whole set against its first policy alone
    if c.policies.len() >= 2 {
        let first = &c.policies[0].0;
        let sub = PolicySet::from_policies([c.pset.policy(&PolicyId::new(first)).unwrap().clone()]).unwrap();
        let d_all = auth.is_authorized(&c.creq, &c.pset, &c.ents).decision() == Decision::Allow;
        let d_sub = auth.is_authorized(&c.creq, &sub, &c.ents).decision() == Decision::Allow;
        if let (Ok(ca), Ok(cs)) = (CompiledPolicySet::compile(&c.pset, &req_env, &c.schema), CompiledPolicySet::compile(&sub, &req_env, &c.schema)) {
            for which in 0..4 {
                let (name, holds_here) = match which {
                    0 => ("always_allows", d_all),
                    1 => ("always_denies", !d_all),
                    2 => ("equivalent", d_all == d_sub),
                    _ => ("implies(sub,all)", !d_sub || d_all),
                };
                let r = with_solver(|sc, rt| {
                    rt.block_on(async {
                        match which {
                            0 => sc.check_always_allows_with_counterexample_opt(&ca).await,
                            1 => sc.check_always_denies_with_counterexample_opt(&ca).await,
                            2 => sc.check_equivalent_with_counterexample_opt(&ca, &cs).await,
                            _ => sc.check_implies_with_counterexample_opt(&cs, &ca).await,
                        }
                    })
                });
                let r = match r {
                    None => {
                        rec.discard("no-solver");
                        return;
                    }
                    Some(Err(e)) => {
                        rec.label(format!("skip:solver:{}", e.to_string().chars().take(40).collect::<String>()));
                        drop_solver();
                        continue;
                    }
                    Some(Ok(r)) => r,
                };
                answered += 1;
                rec.label("solver:answered");
                match r {
                    None => {
                        rec.label(format!("{name}:holds"));
                        if !holds_here {
                            rec.fail(format!("solver:unsound:{name}"), format!("`{name}` is reported to hold for every well-formed input, but on the generated request and store the decisions are all={d_all} first-policy-only={d_sub} (true = Allow)\n{}", c.render()));
                            return;
                        }
                    }
                    Some(cex) => {
                        rec.label(format!("{name}:counterexample"));
                        let a = auth.is_authorized(&cex.request, &c.pset, &cex.entities).decision() == Decision::Allow;
                        let s2 = auth.is_authorized(&cex.request, &sub, &cex.entities).decision() == Decision::Allow;
                        let refutes = match which {
                            0 => !a,
                            1 => a,
                            2 => a != s2,
                            _ => s2 && !a,
                        };
                        if !refutes {
                            rec.fail(format!("solver:bad-counterexample:{name}"), format!("the counterexample returned for `{name}` does not refute it: decisions on it are all={a} first-policy-only={s2} (true = Allow)\ncounterexample:\n{cex}\n{}", c.render()));
                            return;
                        }
                    }
                }
            }
        }
    }
    rec.nontrivial = answered > 0 && (c.uses_optional || c.uses_tags || c.max_derefs > 0);
}

pub fn property() -> Property {
    Property {
        id: "C18",
        rule: "Schema-G schema (extension types, tags, optional attributes, enums), 1..3 (thorough 1..4) strictly valid Policy-T policies, the request's environment, a conformant concrete request and store (entities present or absent). SymEnv::from_concrete_env, then \
               compile each policy and the policy set against that literal environment: every assert must reduce to a constant, and reading 'all asserts true' as 'refuted here' / 'some assert false' as 'holds here': never_errors holds <=> the policy does not error, \
               always_matches holds <=> it is satisfied, never_matches holds <=> it is not; always_allows / always_denies / implies (both directions) / equivalent / disjoint over the set and a random subset agree with the concrete authorizer. \
               Symbolize / compile errors are counted skips. The same conditions are also read through the unoptimised pipeline (deprecated check_* methods with an in-memory writer solver, which must not be needed). \
               Non-trivial = some policy errors or matches and the set uses an optional attribute, a tag or an entity dereference. \
               Sub-check `symbolic` (beyond the literal claim, same oracle): 1..2 policies compiled against the fully symbolic environment and decided by the local cvc5 (3 s per query; unknown = counted skip): a condition reported to hold for all inputs \
               may not be contradicted by the generated concrete input, and every returned counterexample must refute its condition under concrete evaluation (3 single-policy and 4 policy-set conditions).",
        assumptions: &["World-S conformance", "reading of literal asserts as in the upstream test-suite (tests/utils/mod.rs)", "literal-env: no SMT solver is involved", "symbolic: /usr/bin/cvc5 (1.0.3, pre-installed) answers; no answer = skip, never a violation"],
        subs: vec![
            SubCheck { name: "literal-env", cases: (100_000, 2_000_000), tape_len: 4000, run: case, min_labels: &[("policy:errors", 700), ("policy:matches", 10_000), ("set:allow", 3000), ("store:closed", 60_000)] },
            SubCheck { name: "symbolic", cases: (1000, 40_000), tape_len: 4000, run: symbolic_case, min_labels: &[("solver:answered", 3000), ("never_errors:counterexample", 30), ("always_matches:holds", 25)] },
        ],
    }
}
