//! C11 — schema conformance checks accept exactly conformant requests and entities, through every entry point.

use crate::bridge;
use crate::emit::schema as semit;
use crate::engine::{Property, Rec, SubCheck};
use crate::gen::s::{self, SchemaOpts};
use crate::props::scase::{self, render_case};
use crate::refmodel::schema::*;
use crate::refmodel::*;
use crate::tape::Tape;
use cedar_policy::{Context, Entities, Entity, Request, Schema};
use std::collections::BTreeMap;

/// a value of the wrong base type for `ty` (never inhabits it)
fn wrong_leaf(t: &mut Tape, ty: &RType, s: &RSchema) -> V {
    let other_ent = |t: &mut Tape, n: &str| -> Option<V> {
        let others: Vec<&REntityType> = s.entity_types.iter().filter(|e| e.name != n).collect();
        if others.is_empty() {
            None
        } else {
            let e = others[t.upto(others.len())];
            Some(V::Euid(s::gen_uid_of(t, s, &e.name)))
        }
    };
    match ty {
        RType::Long => {
            if t.coin() {
                V::Str("7".into())
            } else {
                V::Bool(true)
            }
        }
        RType::Str => V::Long(7),
        RType::Bool => {
            if t.coin() {
                V::Long(1)
            } else {
                V::Str("true".into())
            }
        }
        RType::Ent(n) => {
            if t.coin() {
                other_ent(t, n).unwrap_or(V::Long(3))
            } else {
                V::Long(3)
            }
        }
        RType::Set(_) => V::Long(0),
        RType::Rec(_) => V::Long(0),
        RType::Ext(n) => match (*n, t.upto(2)) {
            ("decimal", 0) => V::Ip(ext::parse_ip("1.1.1.1").unwrap()),
            ("ipaddr", 0) => V::Decimal(10_000),
            ("datetime", 0) => V::Duration(5),
            ("duration", 0) => V::Datetime(5),
            _ => V::Long(5),
        },
    }
}

/// Replace one leaf (at a random depth) by a value of the wrong type. Returns (value, depth).
fn break_value(t: &mut Tape, v: &V, ty: &RType, s: &RSchema, depth: usize) -> (V, usize) {
    match (v, ty) {
        (V::Set(xs), RType::Set(el)) if !xs.is_empty() && t.bool_p(2, 3) => {
            let k = t.upto(xs.len());
            let mut out = std::collections::BTreeSet::new();
            let mut d = depth;
            for (i, x) in xs.iter().enumerate() {
                if i == k {
                    let (nx, dd) = break_value(t, x, el, s, depth + 1);
                    d = dd;
                    out.insert(nx);
                } else {
                    out.insert(x.clone());
                }
            }
            (V::Set(out), d)
        }
        (V::Rec(m), RType::Rec(attrs)) if !m.is_empty() && t.bool_p(2, 3) => {
            let keys: Vec<&String> = m.keys().collect();
            let k = keys[t.upto(keys.len())].clone();
            let mut out = m.clone();
            let (nx, d) = break_value(t, &m[&k], &attrs[&k].0, s, depth + 1);
            out.insert(k, nx);
            (V::Rec(out), d)
        }
        _ => (wrong_leaf(t, ty, s), depth),
    }
}

/// Paths to nested records inside an attribute map: apply `f` to one nested record (or the top level).
fn with_some_record(t: &mut Tape, m: &BTreeMap<String, V>, attrs: &RAttrs, depth: usize, f: &mut dyn FnMut(&mut Tape, &mut BTreeMap<String, V>, &RAttrs) -> bool) -> Option<(BTreeMap<String, V>, usize)> {
    // nested record candidates
    let nested: Vec<&String> = m.iter().filter(|(k, v)| matches!((v, attrs.get(*k)), (V::Rec(_), Some((RType::Rec(_), _))))).map(|(k, _)| k).collect();
    if !nested.is_empty() && t.bool_p(1, 2) {
        let k = nested[t.upto(nested.len())].clone();
        if let (V::Rec(inner), Some((RType::Rec(ia), _))) = (&m[&k], attrs.get(&k)) {
            if let Some((ni, d)) = with_some_record(t, inner, ia, depth + 1, f) {
                let mut out = m.clone();
                out.insert(k, V::Rec(ni));
                return Some((out, d));
            }
        }
    }
    let mut out = m.clone();
    if f(t, &mut out, attrs) {
        Some((out, depth))
    } else {
        None
    }
}

#[derive(Clone, Debug, PartialEq, Eq)]
enum Side {
    /// the faulted entity
    Entity(Uid),
    Context,
    Scope,
}

struct Fault {
    kind: &'static str,
    side: Side,
    depth: usize,
    world: World,
    req: Req,
    /// extra raw entities to pass alongside (action-entity mismatch)
    extra: Vec<(Uid, EntityData)>,
}

fn gen_fault(t: &mut Tape, rs: &RSchema, world: &World, req: &Req) -> Option<Fault> {
    let ents: Vec<&Uid> = world.entities.keys().filter(|u| rs.et(&u.ty).map(|e| e.enum_ids.is_none()).unwrap_or(false)).collect();
    let pick_ent = |t: &mut Tape| -> Option<Uid> {
        if ents.is_empty() {
            None
        } else {
            Some(ents[t.upto(ents.len())].clone())
        }
    };
    let action = rs.action(&req.action)?;
    let mut w = world.clone();
    let mut r = req.clone();
    let choice = t.upto(16);
    match choice {
        0 | 1 => {
            // wrong type of an entity attribute value
            let u = pick_ent(t)?;
            let et = rs.et(&u.ty)?;
            let d = w.entities.get_mut(&u)?;
            let keys: Vec<String> = d.attrs.keys().cloned().collect();
            if keys.is_empty() {
                return None;
            }
            let k = keys[t.upto(keys.len())].clone();
            let (nv, depth) = break_value(t, &d.attrs[&k], &et.attrs[&k].0, rs, 0);
            d.attrs.insert(k, nv);
            Some(Fault { kind: "attr-type", side: Side::Entity(u), depth, world: w, req: r, extra: vec![] })
        }
        2 => {
            // wrong type inside the context
            let keys: Vec<String> = r.context.keys().cloned().collect();
            if keys.is_empty() {
                return None;
            }
            let k = keys[t.upto(keys.len())].clone();
            let (nv, depth) = break_value(t, &r.context[&k], &action.context[&k].0, rs, 0);
            r.context.insert(k, nv);
            Some(Fault { kind: "context-type", side: Side::Context, depth, world: w, req: r, extra: vec![] })
        }
        3 => {
            // missing required attribute (entity or nested record)
            let u = pick_ent(t)?;
            let et = rs.et(&u.ty)?;
            let d = w.entities.get_mut(&u)?;
            let (na, depth) = with_some_record(t, &d.attrs, &et.attrs, 0, &mut |t, m, a| {
                let req: Vec<String> = a.iter().filter(|(k, (_, rq))| *rq && m.contains_key(*k)).map(|(k, _)| k.clone()).collect();
                if req.is_empty() {
                    return false;
                }
                m.remove(&req[t.upto(req.len())]);
                true
            })?;
            d.attrs = na;
            Some(Fault { kind: "missing-required-attr", side: Side::Entity(u), depth, world: w, req: r, extra: vec![] })
        }
        4 => {
            let (na, depth) = with_some_record(t, &r.context, &action.context, 0, &mut |t, m, a| {
                let req: Vec<String> = a.iter().filter(|(k, (_, rq))| *rq && m.contains_key(*k)).map(|(k, _)| k.clone()).collect();
                if req.is_empty() {
                    return false;
                }
                m.remove(&req[t.upto(req.len())]);
                true
            })?;
            r.context = na;
            Some(Fault { kind: "context-missing-required", side: Side::Context, depth, world: w, req: r, extra: vec![] })
        }
        5 => {
            // undeclared attribute (entity or nested closed record)
            let u = pick_ent(t)?;
            let et = rs.et(&u.ty)?;
            let d = w.entities.get_mut(&u)?;
            let (na, depth) = with_some_record(t, &d.attrs, &et.attrs, 0, &mut |t, m, a| {
                let name = *t.pick(&["undeclared", "zz", "Name"]);
                if a.contains_key(name) {
                    return false;
                }
                m.insert(name.to_string(), V::Long(1));
                true
            })?;
            d.attrs = na;
            Some(Fault { kind: "undeclared-attr", side: Side::Entity(u), depth, world: w, req: r, extra: vec![] })
        }
        6 => {
            let (na, depth) = with_some_record(t, &r.context, &action.context, 0, &mut |t, m, a| {
                let name = *t.pick(&["undeclared", "zz", "Name"]);
                if a.contains_key(name) {
                    return false;
                }
                m.insert(name.to_string(), V::Long(1));
                true
            })?;
            r.context = na;
            Some(Fault { kind: "context-undeclared-attr", side: Side::Context, depth, world: w, req: r, extra: vec![] })
        }
        7 => {
            // tag on a tag-less type / wrong-typed tag
            let u = pick_ent(t)?;
            let et = rs.et(&u.ty)?;
            let d = w.entities.get_mut(&u)?;
            match &et.tags {
                None => {
                    d.tags.insert("k".into(), V::Str("v".into()));
                    Some(Fault { kind: "tag-on-tagless-type", side: Side::Entity(u), depth: 0, world: w, req: r, extra: vec![] })
                }
                Some(tt) => {
                    let v = s::gen_value_of(t, tt, rs, 1);
                    let (nv, depth) = break_value(t, &v, tt, rs, 0);
                    d.tags.insert("k".into(), nv);
                    Some(Fault { kind: "tag-type", side: Side::Entity(u), depth, world: w, req: r, extra: vec![] })
                }
            }
        }
        8 => {
            // ancestor of a non-permitted type
            let u = pick_ent(t)?;
            let allowed = rs.ancestor_types(&u.ty);
            let bad: Vec<&REntityType> = rs.entity_types.iter().filter(|e| !allowed.contains(&e.name)).collect();
            if bad.is_empty() {
                return None;
            }
            let bt = bad[t.upto(bad.len())];
            let p = s::gen_uid_of(t, rs, &bt.name);
            if p == u {
                return None;
            }
            w.entities.get_mut(&u)?.parents.insert(p);
            Some(Fault { kind: "parent-type", side: Side::Entity(u), depth: 0, world: w, req: r, extra: vec![] })
        }
        9 | 10 => {
            // enumerated id outside the declared choices, wherever an entity reference may occur
            let en = rs.entity_types.iter().find(|e| e.enum_ids.is_some())?;
            let bad = Uid { ty: en.name.clone(), id: "not-a-choice".into() };
            // collect positions typed with the enum type
            fn plant(t: &mut Tape, v: &V, ty: &RType, en: &str, bad: &Uid, depth: usize) -> Option<(V, usize)> {
                match (v, ty) {
                    (V::Euid(_), RType::Ent(n)) if n == en => Some((V::Euid(bad.clone()), depth)),
                    (V::Set(xs), RType::Set(el)) => {
                        // add a bad element if the element type mentions the enum type directly
                        if let RType::Ent(n) = &**el {
                            if n == en {
                                let mut o = xs.clone();
                                o.insert(V::Euid(bad.clone()));
                                return Some((V::Set(o), depth + 1));
                            }
                        }
                        for x in xs {
                            if let Some((nx, d)) = plant(t, x, el, en, bad, depth + 1) {
                                let mut o = xs.clone();
                                o.remove(x);
                                o.insert(nx);
                                return Some((V::Set(o), d));
                            }
                        }
                        None
                    }
                    (V::Rec(m), RType::Rec(attrs)) => {
                        for (k, x) in m {
                            if let Some((nx, d)) = plant(t, x, &attrs[k].0, en, bad, depth + 1) {
                                let mut o = m.clone();
                                o.insert(k.clone(), nx);
                                return Some((V::Rec(o), d));
                            }
                        }
                        None
                    }
                    _ => None,
                }
            }
            match t.upto(6) {
                5 => {
                    // as a parent of an entity whose type may be a member of the enumerated type
                    for u in ents.iter().map(|u| (*u).clone()).collect::<Vec<_>>() {
                        let et = rs.et(&u.ty)?;
                        if et.member_of.contains(&en.name) {
                            w.entities.get_mut(&u)?.parents.insert(bad.clone());
                            return Some(Fault { kind: "enum-id-parent", side: Side::Entity(u), depth: 0, world: w, req: r, extra: vec![] });
                        }
                    }
                    None
                }
                0 => {
                    // as an entity in the store
                    w.entities.insert(bad.clone(), EntityData::default());
                    Some(Fault { kind: "enum-id-entity", side: Side::Entity(bad), depth: 0, world: w, req: r, extra: vec![] })
                }
                1 => {
                    if action.principals.contains(&en.name) && r.principal.ty == en.name {
                        r.principal = bad;
                        Some(Fault { kind: "enum-id-principal", side: Side::Scope, depth: 0, world: w, req: r, extra: vec![] })
                    } else if action.resources.contains(&en.name) && r.resource.ty == en.name {
                        r.resource = bad;
                        Some(Fault { kind: "enum-id-resource", side: Side::Scope, depth: 0, world: w, req: r, extra: vec![] })
                    } else {
                        None
                    }
                }
                2 => {
                    for (k, v) in r.context.clone() {
                        if let Some((nv, d)) = plant(t, &v, &action.context[&k].0, &en.name, &bad, 0) {
                            r.context.insert(k, nv);
                            return Some(Fault { kind: "enum-id-context", side: Side::Context, depth: d, world: w, req: r, extra: vec![] });
                        }
                    }
                    None
                }
                3 => {
                    // in a tag value
                    for u in ents.iter().map(|u| (*u).clone()).collect::<Vec<_>>() {
                        let et = rs.et(&u.ty)?;
                        if let Some(tt) = &et.tags {
                            let v = s::gen_value_of(t, tt, rs, 1);
                            if let Some((nv, d)) = plant(t, &v, tt, &en.name, &bad, 0) {
                                w.entities.get_mut(&u)?.tags.insert("k".into(), nv);
                                return Some(Fault { kind: "enum-id-tag", side: Side::Entity(u), depth: d, world: w, req: r, extra: vec![] });
                            }
                        }
                    }
                    None
                }
                _ => {
                    for u in ents.iter().map(|u| (*u).clone()).collect::<Vec<_>>() {
                        let et = rs.et(&u.ty)?;
                        let d0 = w.entities.get(&u)?.clone();
                        for (k, v) in &d0.attrs {
                            if let Some((nv, d)) = plant(t, v, &et.attrs[k].0, &en.name, &bad, 0) {
                                w.entities.get_mut(&u)?.attrs.insert(k.clone(), nv);
                                return Some(Fault { kind: "enum-id-attr", side: Side::Entity(u), depth: d, world: w, req: r, extra: vec![] });
                            }
                        }
                    }
                    None
                }
            }
        }
        11 => {
            // undeclared entity type in the store
            let ns = split_name(&rs.entity_types[0].name).0;
            let u = Uid { ty: if ns.is_empty() { "Nope".into() } else { format!("{ns}::Nope") }, id: "0".into() };
            w.entities.insert(u.clone(), EntityData::default());
            Some(Fault { kind: "undeclared-entity-type", side: Side::Entity(u), depth: 0, world: w, req: r, extra: vec![] })
        }
        12 => {
            // undeclared action
            r.action = Uid { ty: r.action.ty.clone(), id: "no-such-action".into() };
            Some(Fault { kind: "undeclared-action", side: Side::Scope, depth: 0, world: w, req: r, extra: vec![] })
        }
        13 => {
            // action entity differing from its schema definition
            let a = &rs.actions[t.upto(rs.actions.len())];
            let mut d = EntityData::default();
            for g in &a.member_of {
                d.parents.insert(g.clone());
            }
            let kind = if t.coin() {
                d.attrs.insert("extra".into(), V::Long(1));
                "action-entity-attrs"
            } else {
                // a parent the schema does not give it
                let other: Vec<&RAction> = rs.actions.iter().filter(|o| o.id != a.id && !rs.action_ancestors(a).contains(&o.uid()) && !rs.action_ancestors(o).contains(&a.uid())).collect();
                if other.is_empty() {
                    return None;
                }
                d.parents.insert(other[t.upto(other.len())].uid());
                "action-entity-parents"
            };
            Some(Fault { kind, side: Side::Entity(a.uid()), depth: 0, world: w, req: r, extra: vec![(a.uid(), d)] })
        }
        _ => {
            // principal / resource type outside appliesTo
            let which = t.coin();
            let allowed = if which { &action.principals } else { &action.resources };
            let bad: Vec<&REntityType> = rs.entity_types.iter().filter(|e| !allowed.contains(&e.name)).collect();
            if bad.is_empty() {
                return None;
            }
            let k = t.upto(bad.len());
            let u = s::gen_uid_of(t, rs, &bad[k].name);
            if which {
                r.principal = u;
                Some(Fault { kind: "principal-type-not-applicable", side: Side::Scope, depth: 0, world: w, req: r, extra: vec![] })
            } else {
                r.resource = u;
                Some(Fault { kind: "resource-type-not-applicable", side: Side::Scope, depth: 0, world: w, req: r, extra: vec![] })
            }
        }
    }
}

fn entity_json(u: &Uid, d: &EntityData) -> serde_json::Value {
    let mut w = World::default();
    w.entities.insert(u.clone(), d.clone());
    semit::entities_json_explicit(&w).as_array().unwrap()[0].clone()
}

/// Every schema-taking entry point, as (name, accepts?) for the given data. `focus` = the entity a single-entity entry point should look at.
fn entry_points(schema: &Schema, w: &World, extra: &[(Uid, EntityData)], r: &Req, focus: Option<&Uid>) -> Vec<(&'static str, bool, Option<String>)> {
    let mut out = Vec::new();
    let mut raw: Vec<Entity> = match bridge::entities_vec(w) {
        Ok(v) => v,
        Err(e) => return vec![("harness:entities", false, Some(e))],
    };
    for (u, d) in extra {
        match bridge::entity(u, d) {
            Ok(e) => raw.push(e),
            Err(e) => return vec![("harness:entities", false, Some(e))],
        }
    }
    let mut wj = semit::entities_json_explicit(w);
    for (u, d) in extra {
        wj.as_array_mut().unwrap().push(entity_json(u, d));
    }
    let res = |r: Result<(), String>| (r.is_ok(), r.err());
    let (a, e) = res(Entities::from_entities(raw.clone(), Some(schema)).map(|_| ()).map_err(|e| e.to_string()));
    out.push(("Entities::from_entities", a, e));
    let (a, e) = res(Entities::from_json_value(wj.clone(), Some(schema)).map(|_| ()).map_err(|e| e.to_string()));
    out.push(("Entities::from_json_value", a, e));
    let (a, e) = res(Entities::empty().add_entities(raw.clone(), Some(schema)).map(|_| ()).map_err(|e| e.to_string()));
    out.push(("Entities::add_entities", a, e));
    let (a, e) = res(Entities::empty().upsert_entities(raw.clone(), Some(schema)).map(|_| ()).map_err(|e| e.to_string()));
    out.push(("Entities::upsert_entities", a, e));
    let (a, e) = res(Entities::empty().add_entities_from_json_value(wj.clone(), Some(schema)).map(|_| ()).map_err(|e| e.to_string()));
    out.push(("Entities::add_entities_from_json_value", a, e));
    if let Some(u) = focus {
        let d = w.entities.get(u).cloned().or_else(|| extra.iter().find(|(x, _)| x == u).map(|(_, d)| d.clone()));
        if let Some(d) = d {
            let (a, e) = res(Entity::from_json_value(entity_json(u, &d), Some(schema)).map(|_| ()).map_err(|e| e.to_string()));
            out.push(("Entity::from_json_value", a, e));
        }
    }
    // request side
    let ctx = bridge::context(&r.context);
    match ctx {
        Ok(ctx) => {
            let (p, a_, rr) = (bridge::euid(&r.principal), bridge::euid(&r.action), bridge::euid(&r.resource));
            let (a, e) = res(Request::new(p.clone(), a_.clone(), rr.clone(), ctx.clone(), Some(schema)).map(|_| ()).map_err(|e| e.to_string()));
            out.push(("Request::new", a, e));
            let (a, e) = res(Request::builder().principal(p.clone()).action(a_.clone()).resource(rr.clone()).context(ctx.clone()).schema(schema).build().map(|_| ()).map_err(|e| e.to_string()));
            out.push(("RequestBuilder::build", a, e));
            let (a, e) = res(ctx.validate(schema, &a_).map_err(|e| e.to_string()));
            out.push(("Context::validate", a, e));
            let cj = semit::value_json_explicit(&V::Rec(r.context.clone()));
            let (a, e) = res(Context::from_json_value(cj, Some((schema, &a_))).map(|_| ()).map_err(|e| e.to_string()));
            out.push(("Context::from_json_value", a, e));
            let (a, e) = res(cedar_policy::validate_scope_variables(&p, &a_, &rr, schema).map_err(|e| e.to_string()));
            out.push(("validate_scope_variables", a, e));
        }
        Err(e) => out.push(("harness:context", false, Some(e))),
    }
    out
}

/// which entry points are documented to see a fault on the given side
fn covers(ep: &str, f: &Fault) -> bool {
    let entity_eps = ["Entities::from_entities", "Entities::from_json_value", "Entities::add_entities", "Entities::upsert_entities", "Entities::add_entities_from_json_value", "Entity::from_json_value"];
    match &f.side {
        Side::Entity(_) => entity_eps.contains(&ep),
        Side::Context => ["Request::new", "RequestBuilder::build", "Context::validate", "Context::from_json_value"].contains(&ep) && !(f.kind == "undeclared-action"),
        Side::Scope => match f.kind {
            // an undeclared action has no context type either: every request-side entry point that takes the action must refuse
            "undeclared-action" => ["Request::new", "RequestBuilder::build", "Context::validate", "Context::from_json_value", "validate_scope_variables"].contains(&ep),
            _ => ["Request::new", "RequestBuilder::build", "validate_scope_variables"].contains(&ep),
        },
    }
}

fn case(t: &mut Tape, rec: &mut Rec<'_>) {
    let o = SchemaOpts::default();
    let rs = s::gen_schema(t, &o);
    let schema = match scase::build_schema(&rs) {
        Ok(s) => s,
        Err(e) => {
            rec.fail("schema-rejected", format!("a by-construction-valid schema was rejected: {e}"));
            return;
        }
    };
    let world = s::gen_world(t, &rs);
    let Some(req) = s::gen_request(t, &rs) else {
        rec.discard("no-appliable-action");
        return;
    };
    let absent_opt = world.entities.iter().any(|(u, d)| rs.et(&u.ty).map(|e| e.attrs.iter().any(|(k, (_, r))| !*r && !d.attrs.contains_key(k))).unwrap_or(false));
    // (1) conformant data is accepted by every entry point
    let focus = world.entities.keys().next().cloned();
    for (name, ok, err) in entry_points(&schema, &world, &[], &req, focus.as_ref()) {
        if !ok {
            rec.fail(format!("conformant-rejected:{name}"), format!("{name} rejected conformant data: {}\n{}", err.unwrap_or_default(), render_case(&rs, &world, Some(&req))));
            return;
        }
    }
    rec.label("conformant-accepted");
    rec.label_if(absent_opt, "optional-attr-absent");
    // (2) exactly one fault
    let Some(f) = gen_fault(t, &rs, &world, &req) else {
        rec.label("no-fault-site");
        rec.set_key(&format!("{world:?}{req:?}"));
        rec.nontrivial = absent_opt;
        rec.render(|| render_case(&rs, &world, Some(&req)));
        return;
    };
    rec.label(format!("fault:{}", f.kind));
    rec.label_if(f.depth >= 1, "fault-depth>=1");
    rec.nontrivial = true;
    rec.set_key(&format!("{}{:?}{:?}", f.kind, f.world, f.req));
    rec.render(|| format!("fault: {} at depth {} on {:?}\n{}\nextra entities: {:?}", f.kind, f.depth, f.side, render_case(&rs, &f.world, Some(&f.req)), f.extra));
    let focus = match &f.side {
        Side::Entity(u) => Some(u.clone()),
        _ => None,
    };
    for (name, ok, _) in entry_points(&schema, &f.world, &f.extra, &f.req, focus.as_ref()) {
        if name.starts_with("harness:") {
            rec.discard("fault-not-constructible");
            return;
        }
        if covers(name, &f) && ok {
            rec.fail(format!("fault-accepted:{}:{name}", f.kind), format!("{name} accepted data with a `{}` fault (depth {}) on {:?}\n{}\nextra entities: {:?}", f.kind, f.depth, f.side, render_case(&rs, &f.world, Some(&f.req)), f.extra));
            // keep going: report the first only, but known findings must not hide others
            if rec.failed() {
                return;
            }
        }
    }
}

pub fn property() -> Property {
    Property {
        id: "C11",
        rule: "Schema-G schema + World-S store and request, conformant by construction: every schema-taking entry point (Entities::from_entities / from_json_value / add_entities / upsert_entities / add_entities_from_json_value, \
               Entity::from_json_value, Request::new, RequestBuilder::build, Context::validate, Context::from_json_value, validate_scope_variables) must accept. Then exactly one fault from 20 kinds is injected \
               (attribute / tag / context value of the wrong type at depth 0-3, missing required or undeclared attribute in entity, nested record or context, tag on a tag-less type, parent of a non-permitted type, \
               enumerated id outside the choices as entity / attribute / tag / context / principal / resource, undeclared entity type or action, action entity differing from the schema, principal/resource type outside appliesTo) \
               and every entry point whose documented scope covers the faulted component must reject. Non-trivial = a faulted case, or an unfaulted one with an absent optional attribute.",
        assumptions: &["by-construction conformance of World-S and the single-fault mutators (each fault cannot coincide with a conformant datum)", "fault -> entry point table derived from the API documentation"],
        subs: vec![SubCheck { name: "conformance", cases: (200_000, 4_000_000), tape_len: 1200, run: case, min_labels: &[("conformant-accepted", 150_000), ("fault-depth>=1", 3000), ("fault:attr-type", 10_000), ("fault:enum-id-attr", 100), ("fault:parent-type", 2500), ("fault:action-entity-attrs", 1500)] }],
    }
}
