//! Shared case type for the schema-based properties: schema, conformant world, request — built and
//! validated by the library itself (a rejection of by-construction-conformant data is a C11 signal and,
//! for every other property, a discarded case).

use crate::bridge;
use crate::emit::schema as semit;
use crate::gen::s::{self, SchemaOpts};
use crate::refmodel::schema::RSchema;
use crate::refmodel::{Req, World};
use crate::tape::Tape;
use cedar_policy::{Context, Entities, Request, Schema};

pub fn build_schema(rs: &RSchema) -> Result<Schema, String> {
    let j = semit::schema_json(rs, None);
    Schema::from_json_value(j.clone()).map_err(|e| format!("{e}\n{j}"))
}

pub fn build_entities(w: &World, schema: &Schema) -> Result<Entities, String> {
    Entities::from_entities(bridge::entities_vec(w)?, Some(schema)).map_err(|e| e.to_string())
}

pub fn build_request(r: &Req, schema: &Schema) -> Result<Request, String> {
    let ctx: Context = bridge::context(&r.context)?;
    Request::new(bridge::euid(&r.principal), bridge::euid(&r.action), bridge::euid(&r.resource), ctx, Some(schema)).map_err(|e| e.to_string())
}

pub struct SCase {
    pub rs: RSchema,
    pub schema: Schema,
    pub world: World,
    pub ents: Entities,
}

/// Generate schema + conformant world; Err(reason) = the library rejected by-construction-valid input.
pub fn gen_scase(t: &mut Tape, o: &SchemaOpts) -> Result<SCase, String> {
    let rs = s::gen_schema(t, o);
    let schema = build_schema(&rs).map_err(|e| format!("schema rejected: {e}"))?;
    let world = s::gen_world(t, &rs);
    let ents = build_entities(&world, &schema).map_err(|e| format!("world rejected: {e}\nschema: {}", semit::schema_cedar(&rs, None)))?;
    Ok(SCase { rs, schema, world, ents })
}

pub fn render_case(rs: &RSchema, w: &World, r: Option<&Req>) -> String {
    format!(
        "schema:\n{}\nentities: {}\nrequest: {}",
        semit::schema_cedar(rs, None),
        semit::entities_json_explicit(w),
        r.map(|r| format!("principal={}::{:?} action={}::{:?} resource={}::{:?} context={}", r.principal.ty, r.principal.id, r.action.ty, r.action.id, r.resource.ty, r.resource.id, semit::value_json_explicit(&crate::refmodel::V::Rec(r.context.clone())))).unwrap_or_default()
    )
}


// ---------------------------------------------------------------------------------------------
// the "authorization-equivalence" family: schema, strictly valid policies, conformant world and request

use crate::emit::{policy as pemit, text};
use crate::refmodel::policy::RPolicy;
use cedar_policy::{Policy, PolicyId, PolicySet, ValidationMode, Validator};

pub struct AuthCase {
    pub rs: RSchema,
    pub schema: Schema,
    /// (id, reference policy, text) — each strictly valid on its own and as a set
    pub policies: Vec<(String, RPolicy, String)>,
    pub pset: PolicySet,
    pub world: World,
    pub ents: Entities,
    pub req: Req,
    pub creq: Request,
    pub max_derefs: usize,
    pub uses_tags: bool,
    pub uses_optional: bool,
}

pub struct AuthOpts {
    /// probability (n/16) that the store is closed (no reference to an entity without a record)
    pub closed_16: u32,
    pub schema: SchemaOpts,
    pub max_policies: usize,
    pub depth: usize,
    pub path_budget: usize,
    pub traps: bool,
}

/// Err(reason) = discard (counted by the caller)
pub fn gen_auth_case(t: &mut Tape, o: &AuthOpts) -> Result<AuthCase, String> {
    let rs = s::gen_schema(t, &o.schema);
    let schema = build_schema(&rs).map_err(|e| format!("gen-rejected: schema: {e}"))?;
    let envs = s::all_envs(&rs);
    if envs.is_empty() {
        return Err("no-env".into());
    }
    let validator = Validator::new(schema.clone());
    let n = 1 + t.upto(o.max_policies);
    let mut policies = Vec::new();
    let mut pset = PolicySet::new();
    let (mut max_derefs, mut uses_tags, mut uses_optional) = (0, false, false);
    let mut first_env = None;
    for i in 0..n {
        // policies share an environment with probability 2/3 so that several apply to the request
        let (a, pt, rt) = match &first_env {
            Some(e) if t.bool_p(2, 3) => *e,
            _ => {
                let e = &envs[t.upto(envs.len())];
                (e.0, &e.1, &e.2)
            }
        };
        if first_env.is_none() {
            first_env = Some((a, pt, rt));
        }
        let trap = o.traps && t.bool_p(1, 3);
        let depth = 1 + t.upto(o.depth);
        let tp = s::gen_policy_for(t, &rs, a, pt, rt, depth, o.path_budget, trap, 0);
        let txt = pemit::policy_text(&tp.policy, &mut text::Style::canonical());
        let id = format!("p{i}");
        let Ok(pol) = Policy::parse(Some(PolicyId::new(&id)), &txt) else { return Err("harness: generated policy does not parse".into()) };
        let single = PolicySet::from_policies([pol.clone()]).map_err(|e| e.to_string())?;
        if validator.validate(&single, ValidationMode::Strict).validation_passed() {
            let _ = pset.add(pol);
            max_derefs = max_derefs.max(tp.max_derefs);
            uses_tags |= tp.uses_tags;
            uses_optional |= tp.uses_optional;
            policies.push((id, tp.policy, txt));
        }
    }
    if policies.is_empty() {
        return Err("no-valid-policy".into());
    }
    let mut world = s::gen_world(t, &rs);
    let (a, pt, rt) = first_env.unwrap();
    let req = s::gen_request_for(t, &rs, a, pt, rt);
    if t.bool_p(o.closed_16, 16) {
        let mut refs = vec![req.principal.clone(), req.resource.clone()];
        fn lit_uids(e: &crate::refmodel::E, out: &mut Vec<crate::refmodel::Uid>) {
            if let crate::refmodel::E::Lit(crate::refmodel::V::Euid(u)) = e {
                out.push(u.clone());
            }
            e.children().into_iter().for_each(|c| lit_uids(c, out));
        }
        for (_, p, _) in &policies {
            use crate::refmodel::policy::{EntRef, PrC};
            for pc in [&p.principal, &p.resource] {
                if let PrC::Eq(EntRef::Uid(u)) | PrC::In(EntRef::Uid(u)) | PrC::IsIn(_, EntRef::Uid(u)) = pc {
                    refs.push(u.clone());
                }
            }
            p.conds.iter().for_each(|(_, e)| lit_uids(e, &mut refs));
        }
        for v in req.context.values() {
            fn vu(v: &crate::refmodel::V, out: &mut Vec<crate::refmodel::Uid>) {
                match v {
                    crate::refmodel::V::Euid(u) => out.push(u.clone()),
                    crate::refmodel::V::Set(xs) => xs.iter().for_each(|x| vu(x, out)),
                    crate::refmodel::V::Rec(m) => m.values().for_each(|x| vu(x, out)),
                    _ => {}
                }
            }
            vu(v, &mut refs);
        }
        close_world(t, &rs, &mut world, refs);
    }
    let ents = build_entities(&world, &schema).map_err(|e| format!("gen-rejected: world: {e}"))?;
    let creq = build_request(&req, &schema).map_err(|e| format!("gen-rejected: request: {e}"))?;
    Ok(AuthCase { rs, schema, policies, pset, world, ents, req, creq, max_derefs, uses_tags, uses_optional })
}

impl AuthCase {
    pub fn render(&self) -> String {
        format!("{}\npolicies:\n{}", render_case(&self.rs, &self.world, Some(&self.req)), self.policies.iter().map(|(id, _, t)| format!("// {id}\n{t}")).collect::<Vec<_>>().join("\n"))
    }
}

/// Make the store *closed*: every uid occurring in `refs`, in attribute / tag values or among parents gets a
/// (conformant) record. Terminates because each entity type has finitely many instance ids.
pub fn close_world(t: &mut Tape, rs: &RSchema, w: &mut World, refs: impl IntoIterator<Item = crate::refmodel::Uid>) {
    use crate::refmodel::{EntityData, Uid, V};
    fn uids_in(v: &V, out: &mut Vec<Uid>) {
        match v {
            V::Euid(u) => out.push(u.clone()),
            V::Set(xs) => xs.iter().for_each(|x| uids_in(x, out)),
            V::Rec(m) => m.values().for_each(|x| uids_in(x, out)),
            _ => {}
        }
    }
    let mut todo: Vec<Uid> = refs.into_iter().collect();
    for d in w.entities.values() {
        d.attrs.values().chain(d.tags.values()).for_each(|v| uids_in(v, &mut todo));
        todo.extend(d.parents.iter().cloned());
    }
    while let Some(u) = todo.pop() {
        if w.entities.contains_key(&u) || u.ty.ends_with("Action") {
            continue;
        }
        let Some(et) = rs.et(&u.ty) else { continue };
        let mut d = EntityData::default();
        if et.enum_ids.is_none() {
            d.attrs = s::gen_attr_values(t, &et.attrs, rs, 1);
            d.attrs.values().for_each(|v| uids_in(v, &mut todo));
        }
        w.entities.insert(u, d);
    }
}
