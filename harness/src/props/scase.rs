//! Shared case type for the schema-based properties: schema, conformant world, request — built and
//! validated by the library itself (a rejection of by-construction-conformant data is a C11 signal and,
//! for every other property, a discarded case).

use crate::bridge;
use crate::emit::schema as semit;
use crate::gen::s::{self, SchemaOpts};
use crate::refmodel::schema::RSchema;
use crate::refmodel::{Req, World};
use crate::tape::Tape;
use cedar_policy::{Context, Entities, Request, Schema};

pub fn build_schema(rs: &RSchema) -> Result<Schema, String> {
    let j = semit::schema_json(rs, None);
    Schema::from_json_value(j.clone()).map_err(|e| format!("{e}\n{j}"))
}

pub fn build_entities(w: &World, schema: &Schema) -> Result<Entities, String> {
    Entities::from_entities(bridge::entities_vec(w)?, Some(schema)).map_err(|e| e.to_string())
}

pub fn build_request(r: &Req, schema: &Schema) -> Result<Request, String> {
    let ctx: Context = bridge::context(&r.context)?;
    Request::new(bridge::euid(&r.principal), bridge::euid(&r.action), bridge::euid(&r.resource), ctx, Some(schema)).map_err(|e| e.to_string())
}

pub struct SCase {
    pub rs: RSchema,
    pub schema: Schema,
    pub world: World,
    pub ents: Entities,
}

/// Generate schema + conformant world; Err(reason) = the library rejected by-construction-valid input.
pub fn gen_scase(t: &mut Tape, o: &SchemaOpts) -> Result<SCase, String> {
    let rs = s::gen_schema(t, o);
    let schema = build_schema(&rs).map_err(|e| format!("schema rejected: {e}"))?;
    let world = s::gen_world(t, &rs);
    let ents = build_entities(&world, &schema).map_err(|e| format!("world rejected: {e}\nschema: {}", semit::schema_cedar(&rs, None)))?;
    Ok(SCase { rs, schema, world, ents })
}

pub fn render_case(rs: &RSchema, w: &World, r: Option<&Req>) -> String {
    format!(
        "schema:\n{}\nentities: {}\nrequest: {}",
        semit::schema_cedar(rs, None),
        semit::entities_json_explicit(w),
        r.map(|r| format!("principal={}::{:?} action={}::{:?} resource={}::{:?} context={}", r.principal.ty, r.principal.id, r.action.ty, r.action.id, r.resource.ty, r.resource.id, semit::value_json_explicit(&crate::refmodel::V::Rec(r.context.clone())))).unwrap_or_default()
    )
}
