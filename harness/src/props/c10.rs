//! C10 — entity/context JSON round trip; schema-directed parsing agrees with explicit escapes.

use crate::bridge;
use crate::emit::schema as semit;
use crate::engine::{Property, Rec, SubCheck};
use crate::gen::s::{self, SchemaOpts};
use crate::gen::u;
use crate::props::scase::{self, render_case};
use crate::refmodel::schema::*;
use crate::refmodel::*;
use crate::tape::Tape;
use cedar_policy::{Context, Entities, Entity, EntityUid, Schema};
use serde_json::{json, Map, Value as J};

fn stores_equal_on(a: &Entities, b: &Entities, uids: impl Iterator<Item = EntityUid>) -> Result<(), String> {
    for u in uids {
        match (a.get(&u), b.get(&u)) {
            (Some(x), Some(y)) => {
                if !x.deep_eq(y) {
                    return Err(format!("entity {u} differs:\n  {x}\n  {y}"));
                }
            }
            (None, None) => {}
            (x, y) => return Err(format!("entity {u}: present {} vs {}", x.is_some(), y.is_some())),
        }
    }
    Ok(())
}

/// value -> JSON with a per-position choice of implicit (schema-directed) or explicit form
fn value_json_mixed(t: &mut Tape, v: &V, ty: &RType) -> J {
    match (v, ty) {
        (V::Euid(u), RType::Ent(_)) => match t.upto(3) {
            0 => json!({"__entity": {"type": u.ty, "id": u.id}}),
            _ => json!({"type": u.ty, "id": u.id}),
        },
        (V::Set(xs), RType::Set(el)) => J::Array(xs.iter().map(|x| value_json_mixed(t, x, el)).collect()),
        (V::Rec(m), RType::Rec(attrs)) => J::Object(m.iter().map(|(k, x)| (k.clone(), value_json_mixed(t, x, &attrs[k].0))).collect()),
        (V::Decimal(d), _) => match t.upto(3) {
            0 => json!(ext::decimal_canonical(*d)),
            1 => json!({"fn": "decimal", "arg": ext::decimal_canonical(*d)}),
            _ => json!({"__extn": {"fn": "decimal", "arg": ext::decimal_canonical(*d)}}),
        },
        (V::Ip(ip), _) => match t.upto(3) {
            0 => json!(ip.spelling()),
            1 => json!({"fn": "ip", "arg": ip.spelling()}),
            _ => json!({"__extn": {"fn": "ip", "arg": ip.spelling()}}),
        },
        (V::Duration(ms), _) => match t.upto(3) {
            0 => json!(ext::duration_spelling(*ms)),
            1 => json!({"fn": "duration", "arg": ext::duration_spelling(*ms)}),
            _ => json!({"__extn": {"fn": "duration", "arg": ext::duration_spelling(*ms)}}),
        },
        (V::Datetime(ms), _) => {
            let off = if t.coin() { 0 } else { t.range(-600, 600) };
            match (ext::datetime_spelling(*ms, off), t.upto(3)) {
                (Some(s), 0) => json!(s),
                (Some(s), 1) => json!({"fn": "datetime", "arg": s}),
                (Some(s), _) => json!({"__extn": {"fn": "datetime", "arg": s}}),
                (None, _) => semit::value_json_explicit(v),
            }
        }
        _ => semit::value_json_explicit(v),
    }
}

fn entities_json_mixed(t: &mut Tape, w: &World, rs: &RSchema) -> J {
    J::Array(
        w.entities
            .iter()
            .map(|(u, d)| {
                let et = rs.et(&u.ty);
                let mut m = Map::new();
                m.insert("uid".into(), if t.coin() { json!({"type": u.ty, "id": u.id}) } else { json!({"__entity": {"type": u.ty, "id": u.id}}) });
                m.insert("attrs".into(), J::Object(d.attrs.iter().map(|(k, v)| (k.clone(), match et.and_then(|e| e.attrs.get(k)) { Some((ty, _)) => value_json_mixed(t, v, ty), None => semit::value_json_explicit(v) })).collect()));
                m.insert("parents".into(), J::Array(d.parents.iter().map(|p| if t.coin() { json!({"type": p.ty, "id": p.id}) } else { json!({"__entity": {"type": p.ty, "id": p.id}}) }).collect()));
                if !d.tags.is_empty() || t.bool_p(1, 4) {
                    m.insert("tags".into(), J::Object(d.tags.iter().map(|(k, v)| (k.clone(), match et.and_then(|e| e.tags.as_ref()) { Some(ty) => value_json_mixed(t, v, ty), None => semit::value_json_explicit(v) })).collect()));
                }
                J::Object(m)
            })
            .collect(),
    )
}

fn has_nested_special(v: &V, depth: usize) -> bool {
    match v {
        V::Euid(_) | V::Decimal(_) | V::Ip(_) | V::Datetime(_) | V::Duration(_) => depth > 0,
        V::Set(xs) => xs.iter().any(|x| has_nested_special(x, depth + 1)),
        V::Rec(m) => m.iter().any(|(k, x)| k.chars().any(|c| c == '"' || c == '\\' || !c.is_ascii()) || has_nested_special(x, depth + 1)),
        _ => false,
    }
}

fn with_schema(t: &mut Tape, rec: &mut Rec<'_>) {
    let o = SchemaOpts::default();
    let sc = match scase::gen_scase(t, &o) {
        Ok(s) => s,
        Err(e) => {
            rec.discard("gen-rejected");
            rec.render(|| e);
            return;
        }
    };
    let (rs, schema, world, ents): (&RSchema, &Schema, &World, &Entities) = (&sc.rs, &sc.schema, &sc.world, &sc.ents);
    rec.nontrivial = world.entities.values().any(|d| d.attrs.values().chain(d.tags.values()).any(|v| has_nested_special(v, 0)));
    rec.label_if(world.entities.values().any(|d| !d.tags.is_empty()), "tags");
    rec.label_if(world.entities.values().any(|d| !d.parents.is_empty()), "parents");
    rec.set_key(&format!("{world:?}"));
    rec.render(|| render_case(rs, world, None));
    // J1: to_json -> from_json with and without schema
    let j = match ents.to_json_value() {
        Ok(j) => j,
        Err(e) => {
            rec.fail("to_json-failed", format!("to_json_value failed on a valid store: {e}"));
            return;
        }
    };
    match Entities::from_json_value(j.clone(), Some(schema)) {
        Ok(back) => {
            if !back.deep_eq(ents) {
                let detail = stores_equal_on(ents, &back, ents.iter().map(|e| e.uid())).err().unwrap_or_else(|| format!("uid sets differ: {} vs {} entities", ents.len(), back.len()));
                rec.fail("roundtrip:store-with-schema", format!("from_json_value(to_json_value(store), schema) is not deep_eq to the store: {detail}\njson: {j}"));
                return;
            }
        }
        Err(e) => {
            rec.fail("roundtrip:store-with-schema", format!("the output of to_json_value is rejected with the schema: {e}\njson: {j}"));
            return;
        }
    }
    match Entities::from_json_value(j.clone(), None) {
        Ok(back) => {
            // schema-based loading contributes the schema's action entities, nothing else: `ents` already holds them
            if !back.deep_eq(ents) {
                let detail = stores_equal_on(ents, &back, ents.iter().map(|e| e.uid())).err().unwrap_or_else(|| format!("uid sets differ: {} vs {} entities", ents.len(), back.len()));
                rec.fail("roundtrip:store-without-schema", format!("from_json_value(to_json_value(store), None) is not deep_eq to the store: {detail}\njson: {j}"));
                return;
            }
        }
        Err(e) => {
            rec.fail("roundtrip:store-without-schema", format!("the output of to_json_value is rejected without schema: {e}\njson: {j}"));
            return;
        }
    }
    // schema-based loading adds exactly the schema's action entities
    {
        let plain = match bridge::entities(world) {
            Ok(p) => p,
            Err(_) => return,
        };
        let extra: std::collections::BTreeSet<String> = ents.iter().map(|e| e.uid().to_string()).filter(|u| plain.iter().all(|p| &p.uid().to_string() != u)).collect();
        let want: std::collections::BTreeSet<String> = rs.actions.iter().map(|a| bridge::euid(&a.uid()).to_string()).collect();
        if extra != want {
            rec.fail("schema-loading-extras", format!("schema-based loading added {extra:?}; the schema's action entities are {want:?}"));
            return;
        }
    }
    // single entities
    for e in ents.iter().take(4) {
        match e.to_json_value() {
            Ok(ej) => match Entity::from_json_value(ej.clone(), if t.coin() { Some(schema) } else { None }) {
                Ok(back) => {
                    // a single entity's JSON lists all ancestors as parents: compare uid/attrs/tags and the ancestor set
                    if !back.deep_eq(e) {
                        rec.fail("roundtrip:entity", format!("Entity::from_json_value(to_json_value(e)) differs from e:\n  {e}\n  {back}\njson: {ej}"));
                        return;
                    }
                }
                Err(er) => {
                    rec.fail("roundtrip:entity", format!("Entity JSON rejected: {er}\njson: {ej}"));
                    return;
                }
            },
            Err(er) => {
                rec.fail("to_json-failed", format!("Entity::to_json_value failed: {er}"));
                return;
            }
        }
    }
    // J2: implicit forms with the schema == explicit forms without it
    let mixed = entities_json_mixed(t, world, rs);
    let explicit = semit::entities_json_explicit(world);
    rec.render(|| format!("mixed-form JSON: {mixed}"));
    match (Entities::from_json_value(mixed.clone(), Some(schema)), Entities::from_json_value(explicit.clone(), None)) {
        (Ok(a), Ok(b)) => {
            if let Err(e) = stores_equal_on(&a, &b, world.entities.keys().map(bridge::euid)) {
                rec.fail("implicit-vs-explicit", format!("schema-directed parse of implicit forms differs from the explicit parse: {e}\nimplicit: {mixed}\nexplicit: {explicit}"));
                return;
            }
            if !a.deep_eq(ents) {
                rec.fail("implicit-vs-constructed", format!("schema-directed parse of implicit forms is not deep_eq to the store built through the API\nimplicit: {mixed}"));
                return;
            }
        }
        (Err(e), _) => {
            rec.fail("implicit-rejected", format!("schema-directed parsing rejected conformant data in implicit form: {e}\n{mixed}"));
            return;
        }
        (_, Err(e)) => {
            rec.fail("explicit-rejected", format!("explicit JSON rejected: {e}\n{explicit}"));
            return;
        }
    }
    // context
    if let Some(req) = s::gen_request(t, rs) {
        let a = rs.action(&req.action).unwrap();
        let act = bridge::euid(&req.action);
        if let Ok(ctx) = bridge::context(&req.context) {
            match ctx.to_json_value() {
                Ok(cj) => {
                    for sch in [Some((schema, &act)), None] {
                        match Context::from_json_value(cj.clone(), sch) {
                            Ok(back) => {
                                if format!("{:?}", back.to_json_value().ok()) != format!("{:?}", Some(&cj)) || back.clone().into_iter().count() != ctx.clone().into_iter().count() {
                                    rec.fail("roundtrip:context", format!("context JSON round trip changed the context: {cj} -> {:?}", back.to_json_value()));
                                    return;
                                }
                                // value-level comparison through the request evaluator: context == original
                                let same = cedar_policy_core::ast::Context::from(back.clone().as_ref().clone()) == cedar_policy_core::ast::Context::from(ctx.as_ref().clone());
                                if !same {
                                    rec.fail("roundtrip:context", format!("context JSON round trip is not equal to the original: {cj}"));
                                    return;
                                }
                            }
                            Err(e) => {
                                rec.fail("roundtrip:context", format!("context JSON rejected (schema: {}): {e}\n{cj}", sch.is_some()));
                                return;
                            }
                        }
                    }
                }
                Err(e) => {
                    rec.fail("to_json-failed", format!("Context::to_json_value failed: {e}"));
                    return;
                }
            }
            // implicit forms
            let cm = J::Object(req.context.iter().map(|(k, v)| (k.clone(), value_json_mixed(t, v, &a.context[k].0))).collect());
            match Context::from_json_value(cm.clone(), Some((schema, &act))) {
                Ok(c2) => {
                    if cedar_policy_core::ast::Context::from(c2.as_ref().clone()) != cedar_policy_core::ast::Context::from(ctx.as_ref().clone()) {
                        rec.fail("implicit-vs-explicit:context", format!("schema-directed context parse differs from the context built through the API: {cm}"));
                    }
                }
                Err(e) => {
                    rec.fail("implicit-rejected:context", format!("{e}\n{cm}"));
                }
            }
        }
    }
}

fn gen_value_reserved(t: &mut Tape, depth: usize) -> V {
    let k = u::KINDS[t.upto(u::KINDS.len())];
    match k {
        u::K::Rec if depth > 0 => {
            let n = t.weighted(&[1, 3, 3, 1]);
            let mut m = std::collections::BTreeMap::new();
            for _ in 0..n {
                let key = match t.weighted(&[6, 1, 1, 1, 1]) {
                    0 => u::ATTRS[t.upto(u::ATTRS.len())].0.to_string(),
                    1 => "__entity".to_string(),
                    2 => "__extn".to_string(),
                    3 => "__expr".to_string(),
                    _ => (*t.pick(&["type", "id", "fn", "arg", "__entity ", "__Entity"])).to_string(),
                };
                let v = match (key.as_str(), t.upto(3)) {
                    ("__entity", 0) => V::Rec([("type".to_string(), V::Str("A".into())), ("id".to_string(), V::Str("a0".into()))].into_iter().collect()),
                    ("__extn", 0) => V::Rec([("fn".to_string(), V::Str("ip".into())), ("arg".to_string(), V::Str("1.1.1.1".into()))].into_iter().collect()),
                    ("__expr", 0) => V::Str("1 + 1".into()),
                    _ => gen_value_reserved(t, depth - 1),
                };
                m.insert(key, v);
            }
            V::Rec(m)
        }
        u::K::Set if depth > 0 => {
            let n = t.upto(3);
            V::set((0..n).map(|_| gen_value_reserved(t, depth - 1)))
        }
        k => u::gen_value(t, k, depth.min(1)),
    }
}

fn contains_reserved(v: &V) -> bool {
    match v {
        V::Rec(m) => m.iter().any(|(k, x)| ["__entity", "__extn", "__expr"].contains(&k.as_str()) || contains_reserved(x)),
        V::Set(xs) => xs.iter().any(contains_reserved),
        _ => false,
    }
}

fn schemaless(t: &mut Tape, rec: &mut Rec<'_>) {
    let mut world = u::gen_world(t);
    // sprinkle values with reserved-looking keys
    let keys: Vec<Uid> = world.entities.keys().cloned().collect();
    let mut reserved = false;
    for k in &keys {
        if t.bool_p(1, 3) {
            let v = gen_value_reserved(t, 3);
            reserved |= contains_reserved(&v);
            let d = world.entities.get_mut(k).unwrap();
            if t.coin() {
                d.attrs.insert("x".into(), v);
            } else {
                d.tags.insert("x".into(), v);
            }
        }
    }
    rec.label_if(reserved, "reserved-key");
    rec.nontrivial = reserved || world.entities.values().any(|d| d.attrs.values().chain(d.tags.values()).any(|v| has_nested_special(v, 0)));
    rec.set_key(&format!("{world:?}"));
    rec.render(|| format!("entities (reference): {world:?}"));
    let ents = match bridge::entities(&world) {
        Ok(e) => e,
        Err(_) => {
            rec.discard("world-rejected");
            return;
        }
    };
    match ents.to_json_value() {
        Ok(j) => {
            rec.label("to_json-ok");
            // whenever to_json returns Ok, parsing it back gives deep-equal data
            match Entities::from_json_value(j.clone(), None) {
                Ok(back) => {
                    if !back.deep_eq(&ents) {
                        let detail = stores_equal_on(&ents, &back, ents.iter().map(|e| e.uid())).err().unwrap_or_default();
                        rec.fail(if reserved { "reserved-key-silently-altered" } else { "roundtrip:store-without-schema" }, format!("to_json_value returned a document that parses back to different data: {detail}\njson: {j}"));
                    }
                }
                Err(e) => {
                    rec.fail(if reserved { "reserved-key-unparseable-output" } else { "roundtrip:store-without-schema" }, format!("to_json_value returned a document that does not parse back: {e}\njson: {j}"));
                }
            }
        }
        Err(e) => {
            rec.label("to_json-refused");
            if !reserved {
                rec.fail("to_json-failed", format!("to_json_value failed although no record holds a reserved key: {e}"));
            }
        }
    }
    // context with reserved keys
    let cv = gen_value_reserved(t, 3);
    if let V::Rec(m) = &cv {
        if let Ok(ctx) = bridge::context(m) {
            if let Ok(cj) = ctx.to_json_value() {
                match Context::from_json_value(cj.clone(), None) {
                    Ok(back) => {
                        if cedar_policy_core::ast::Context::from(back.as_ref().clone()) != cedar_policy_core::ast::Context::from(ctx.as_ref().clone()) {
                            rec.fail("reserved-key-silently-altered:context", format!("Context::to_json_value returned a document that parses back to a different context: {cj}"));
                        }
                    }
                    Err(e) => {
                        rec.fail("reserved-key-unparseable-output:context", format!("{e}\n{cj}"));
                    }
                }
            } else if !contains_reserved(&cv) {
                rec.fail("to_json-failed", "Context::to_json_value failed without reserved keys".to_string());
            }
        }
    }
}

pub fn property() -> Property {
    Property {
        id: "C10",
        rule: "with-schema: Schema-G + World-S (all value shapes incl. entity references, extension values, nested sets/records, tags, ancestors, dangling parents): to_json_value -> from_json_value with and without the schema is deep_eq; \
               schema loading adds exactly the schema's action entities; single Entity and Context round trips; the same data written with a per-position choice of implicit ({type,id} / {fn,arg} / bare string) versus explicit (__entity / __extn) forms \
               parses under the schema to the same entities as the fully explicit document without schema. schemaless: World-U plus records with reserved-looking keys (__entity, __extn, __expr, near-misses): whenever to_json_value returns Ok the document parses back deep-equal, \
               and it fails only when a reserved key is present. Non-trivial = an entity reference / extension value nested in a set or record, a key needing JSON escaping, or a reserved key.",
        assumptions: &["harness JSON writers for the implicit/explicit forms", "Entities::deep_eq / Entity::deep_eq as comparison (backed by per-uid comparison)"],
        subs: vec![
            SubCheck { name: "with-schema", cases: (30_000, 600_000), tape_len: 1500, run: with_schema, min_labels: &[("tags", 5000), ("parents", 10_000)] },
            SubCheck { name: "schemaless", cases: (40_000, 800_000), tape_len: 900, run: schemaless, min_labels: &[("reserved-key", 5000), ("to_json-refused", 2000), ("to_json-ok", 20_000)] },
        ],
    }
}
