//! C05 — policy text -> AST -> text round trip preserves structure and meaning.

use crate::bridge;
use crate::emit::{policy as pemit, text};
use crate::engine::{Property, Rec, SubCheck};
use crate::gen::u;
use crate::refmodel::policy::RPolicy;
use crate::tape::Tape;
use cedar_policy::{Policy, PolicyId, PolicySet, Template};
use cedar_policy_core::ast;
use cedar_policy_core::parser;
use std::str::FromStr;

fn parse_tpl(txt: &str) -> Result<ast::Template, String> {
    parser::parse_policy_or_template(Some(ast::PolicyID::from_string("p")), txt).map_err(|e| e.to_string())
}

fn has_escape_material(p: &RPolicy) -> bool {
    format!("{p:?}").chars().any(|c| !c.is_ascii() || c == '\\')
}

pub fn gen_ref_policy(t: &mut Tape, rec: &Rec<'_>) -> RPolicy {
    let slots = match t.weighted(&[5, 1, 1, 1]) {
        0 => 0,
        k => k as u8,
    };
    u::gen_policy(t, slots, rec.size(4, 6))
}

fn single(t: &mut Tape, rec: &mut Rec<'_>) {
    let p = gen_ref_policy(t, rec);
    let sel = t.upto(4);
    let txt = match sel {
        0 => pemit::policy_text(&p, &mut text::Style::canonical()),
        1 => pemit::policy_text(&p, &mut text::Style::full()),
        _ => pemit::policy_text(&p, &mut text::Style::random(t)),
    };
    let maxdepth = p.conds.iter().map(|(_, e)| e.depth()).max().unwrap_or(0);
    rec.nontrivial = maxdepth >= 3 || has_escape_material(&p);
    rec.label_if(p.is_template(), "template");
    rec.label_if(maxdepth >= 3, "depth>=3");
    rec.label_if(has_escape_material(&p), "escapes");
    rec.label_if(!p.annotations.is_empty(), "annotated");
    rec.label_if(p.conds.len() >= 2, "multi-clause");
    rec.set_key(&txt);
    rec.render(|| format!("text:\n{txt}"));
    let p1 = match parse_tpl(&txt) {
        Ok(p1) => p1,
        Err(e) => {
            rec.fail("generated-text-rejected", format!("parser rejected by-construction-valid text:\n{txt}\n{e}"));
            return;
        }
    };
    // (a) the parse has the structure the text denotes (pins precedence/associativity/unary minus to the grammar)
    if let Err(e) = bridge::template_matches(&p1, &p) {
        rec.fail("parse-structure", format!("{e}\ntext: {txt}"));
        return;
    }
    // (b) print (AST printer) and re-parse
    let txt2 = p1.to_string();
    rec.render(|| format!("printed:\n{txt2}"));
    let p2 = match parse_tpl(&txt2) {
        Ok(p2) => p2,
        Err(e) => {
            rec.fail("printed-text-rejected", format!("the printout of an accepted policy does not parse:\n{txt2}\n{e}\noriginal: {txt}"));
            return;
        }
    };
    if let Err(e) = bridge::templates_equal(&p1, &p2) {
        rec.fail("roundtrip-structure", format!("{e}\noriginal: {txt}\nprinted: {txt2}"));
        return;
    }
    // the printout must still denote the reference structure (guards against eq_shape being weakened)
    if let Err(e) = bridge::template_matches(&p2, &p) {
        rec.fail("roundtrip-vs-reference", format!("{e}\noriginal: {txt}\nprinted: {txt2}"));
        return;
    }
    // (c) JSON-born policy rendered with to_cedar (the AST printer applied to what the JSON converts to), through the public API
    let j = pemit::policy_json(&p);
    let printed = if p.is_template() {
        Template::from_json(Some(PolicyId::new("j")), j.clone()).map(|t| t.to_cedar()).map_err(|e| e.to_string())
    } else {
        Policy::from_json(Some(PolicyId::new("j")), j.clone()).map_err(|e| e.to_string()).and_then(|p| p.to_cedar().ok_or_else(|| "to_cedar() returned None for a static policy".to_string()))
    };
    match printed {
        Ok(txt3) => {
            rec.render(|| format!("to_cedar of the JSON form:\n{txt3}"));
            match parse_tpl(&txt3) {
                Ok(p3) => {
                    if let Err(e) = bridge::template_matches(&p3, &p) {
                        rec.fail("json-print-structure", format!("{e}\njson: {j}\nto_cedar: {txt3}"));
                    }
                }
                Err(e) => {
                    rec.fail("printed-text-rejected", format!("to_cedar() of an accepted JSON policy does not parse:\n{txt3}\n{e}\njson: {j}"));
                }
            }
        }
        Err(e) => {
            rec.fail("generated-json-rejected", format!("{j}\n{e}"));
        }
    }
    if rec.failed() {
        return;
    }
    // (d) third printer: `Display` of a JSON-born policy / template prints its JSON (EST) form directly
    let shown = if p.is_template() {
        Template::from_json(Some(PolicyId::new("j")), j.clone()).map(|t| t.to_string()).map_err(|e| e.to_string())
    } else {
        Policy::from_json(Some(PolicyId::new("j")), j.clone()).map(|p| p.to_string()).map_err(|e| e.to_string())
    };
    // (e) a template born from text, linked: the linked policy's `Display` prints the template with the values written in
    if p.is_template() {
        use crate::refmodel::policy::EntRef;
        use crate::refmodel::Uid;
        let up = Uid { ty: "A".into(), id: "a0".into() };
        let ur = Uid { ty: "NS::C".into(), id: "q\"uote\\".into() };
        let needs_p = matches!(&p.principal, crate::refmodel::policy::PrC::Eq(EntRef::Slot) | crate::refmodel::policy::PrC::In(EntRef::Slot) | crate::refmodel::policy::PrC::IsIn(_, EntRef::Slot));
        let needs_r = matches!(&p.resource, crate::refmodel::policy::PrC::Eq(EntRef::Slot) | crate::refmodel::policy::PrC::In(EntRef::Slot) | crate::refmodel::policy::PrC::IsIn(_, EntRef::Slot));
        let mut ps = cedar_policy::PolicySet::new();
        if let Ok(tpl) = Template::parse(Some(PolicyId::new("t")), &txt) {
            if ps.add_template(tpl).is_ok() {
                let mut vals = std::collections::HashMap::new();
                if needs_p {
                    vals.insert(cedar_policy::SlotId::principal(), bridge::euid(&up));
                }
                if needs_r {
                    vals.insert(cedar_policy::SlotId::resource(), bridge::euid(&ur));
                }
                if ps.link(PolicyId::new("t"), PolicyId::new("l"), vals).is_ok() {
                    let linked_txt = ps.policy(&PolicyId::new("l")).unwrap().to_string();
                    let want = p.link(if needs_p { Some(&up) } else { None }, if needs_r { Some(&ur) } else { None });
                    rec.label("linked-display");
                    match parse_tpl(&linked_txt) {
                        Ok(pl) => {
                            if let Err(e) = bridge::template_matches(&pl, &want) {
                                rec.fail("linked-display-structure", format!("{e}\ntemplate: {txt}\nDisplay of the link: {linked_txt}"));
                                return;
                            }
                        }
                        Err(e) => {
                            rec.fail("printed-text-rejected:linked-display", format!("Display of a linked policy does not parse:\n{linked_txt}\n{e}\ntemplate: {txt}"));
                            return;
                        }
                    }
                }
            }
        }
    }
    if let Ok(txt4) = shown {
        rec.render(|| format!("Display of the JSON form:\n{txt4}"));
        match parse_tpl(&txt4) {
            Ok(p4) => {
                if let Err(e) = bridge::template_matches(&p4, &p) {
                    rec.fail("json-display-structure", format!("{e}\njson: {j}\nDisplay: {txt4}"));
                }
            }
            Err(e) => {
                rec.fail("printed-text-rejected:json-display", format!("Display of an accepted JSON policy does not parse:\n{txt4}\n{e}\njson: {j}"));
            }
        }
    }
}

fn set(t: &mut Tape, rec: &mut Rec<'_>) {
    let n = t.upto(5);
    let ps: Vec<RPolicy> = (0..n).map(|_| gen_ref_policy(t, rec)).collect();
    let txt: String = ps.iter().map(|p| pemit::policy_text(p, &mut text::Style::random(t))).collect::<Vec<_>>().join(if t.coin() { "\n" } else { " // c\n\n" });
    rec.nontrivial = n >= 2;
    rec.label_if(ps.iter().any(|p| p.is_template()), "has-template");
    rec.set_key(&txt);
    rec.render(|| format!("text:\n{txt}"));
    let set1 = match parser::parse_policyset(&txt) {
        Ok(s) => s,
        Err(e) => {
            rec.fail("generated-text-rejected", format!("{txt}\n{e}"));
            return;
        }
    };
    // order-derived ids: policy{i} by position
    for (i, p) in ps.iter().enumerate() {
        let id = ast::PolicyID::from_string(format!("policy{i}"));
        match set1.get_template(&id) {
            Some(tp) => {
                if let Err(e) = bridge::template_matches(&tp, p) {
                    rec.fail("parse-structure", format!("policy{i}: {e}\n{txt}"));
                    return;
                }
            }
            None => {
                rec.fail("set-missing-policy", format!("policy{i} missing after parsing the set\n{txt}"));
                return;
            }
        }
    }
    let originals: Vec<ast::Template> = set1.all_templates().cloned().collect();
    let same_collection = |printed: &str, what: &str, rec: &mut Rec<'_>| {
        let set2 = match parser::parse_policyset(printed) {
            Ok(s) => s,
            Err(e) => {
                rec.fail("printed-text-rejected", format!("{what} does not parse:\n{printed}\n{e}"));
                return;
            }
        };
        let mut remaining: Vec<ast::Template> = set2.all_templates().cloned().collect();
        if remaining.len() != originals.len() {
            rec.fail("set-size", format!("{what}: {} policies in, {} parsed back\n{printed}", originals.len(), remaining.len()));
            return;
        }
        for o in &originals {
            match remaining.iter().position(|r| bridge::templates_equal(o, r).is_ok()) {
                Some(k) => {
                    remaining.swap_remove(k);
                }
                None => {
                    rec.fail("set-roundtrip", format!("{what}: policy `{}` has no structurally equal counterpart\n{printed}", o.id()));
                    return;
                }
            }
        }
    };
    // A. text-born public PolicySet: to_cedar() (documented printer for whole sets) re-parses to the same collection
    match PolicySet::from_str(&txt) {
        Ok(pubset) => match pubset.to_cedar() {
            Some(c) => {
                rec.render(|| format!("to_cedar (text-born):\n{c}"));
                same_collection(&c, "PolicySet::to_cedar of a text-born set", rec);
            }
            None => {
                rec.fail("to_cedar-none", "to_cedar() returned None for a set without links".to_string());
            }
        },
        Err(e) => {
            rec.fail("generated-text-rejected", format!("public PolicySet::from_str: {e}\n{txt}"));
        }
    }
    if rec.failed() {
        return;
    }
    // B. JSON-born public PolicySet: printed from the EST
    let mut statics = serde_json::Map::new();
    let mut templates = serde_json::Map::new();
    for (i, p) in ps.iter().enumerate() {
        if p.is_template() {
            templates.insert(format!("policy{i}"), pemit::policy_json(p));
        } else {
            statics.insert(format!("policy{i}"), pemit::policy_json(p));
        }
    }
    let j = serde_json::json!({"staticPolicies": statics, "templates": templates, "templateLinks": []});
    match PolicySet::from_json_value(j.clone()) {
        Ok(jset) => match jset.to_cedar() {
            Some(c) => {
                rec.render(|| format!("to_cedar (JSON-born):\n{c}"));
                same_collection(&c, "PolicySet::to_cedar of a JSON-born set", rec);
            }
            None => {
                rec.fail("to_cedar-none", "to_cedar() returned None for a set without links".to_string());
            }
        },
        Err(e) => {
            rec.fail("generated-json-rejected", format!("{j}\n{e}"));
        }
    }
}

pub fn property() -> Property {
    Property {
        id: "C05",
        rule: "reference policies/templates (all scope forms, slots, annotations incl. reserved-word keys and arbitrary string values, 0..3 when/unless clauses over Expr-U depth<=4 quick / 6 thorough) \
               printed with canonical, fully parenthesised or random spelling (redundant parentheses, `.a` vs `[\"a\"]`, quoted keys, per-character escape choice raw / named / \\xHH / \\u{..}, `!!!`, \
               trailing commas, comments, odd whitespace). Oracle: parse has the reference structure (desugared, bool-literal fold); AST-printer output re-parses to a structurally equal \
               template that still has the reference structure; JSON form printed by to_cedar() re-parses to the reference structure; policy sets keep the same collection. \
               Non-trivial = a condition of depth>=3 or non-ASCII/backslash material; distinct = distinct text.",
        assumptions: &["harness text emitter and structural matcher (bridge::expr_matches)"],
        subs: vec![
            SubCheck { name: "single", cases: (400_000, 8_000_000), tape_len: 700, run: single, min_labels: &[("template", 20_000), ("depth>=3", 60_000), ("escapes", 60_000), ("annotated", 30_000), ("multi-clause", 30_000)] },
            SubCheck { name: "set", cases: (100_000, 2_000_000), tape_len: 2000, run: set, min_labels: &[("has-template", 2000)] },
        ],
    }
}
