//! C12 — the formatter is total, preserves meaning and comments, and is idempotent without comments.

use crate::bridge;
use crate::emit::{policy as pemit, text};
use crate::engine::{Property, Rec, SubCheck};
use crate::props::c05::gen_ref_policy;
use crate::tape::Tape;
use cedar_policy_core::ast;
use cedar_policy_core::parser;
use cedar_policy_formatter::{policies_str_to_pretty, Config};

#[derive(Debug, Clone, PartialEq)]
pub enum Tok {
    Str(String),     // whole literal incl. quotes
    Comment(String), // body after `//` up to (not including) the newline
    Word(String),
    Punct(String),
}

/// Own tokenizer for Cedar policy text (knows string literals, so `"// not a comment"` is left alone).
pub fn tokenize(s: &str) -> Vec<Tok> {
    let cs: Vec<char> = s.chars().collect();
    let mut i = 0;
    let mut out = Vec::new();
    while i < cs.len() {
        let c = cs[i];
        if c.is_whitespace() {
            i += 1;
        } else if c == '"' {
            let mut j = i + 1;
            while j < cs.len() && cs[j] != '"' {
                if cs[j] == '\\' {
                    j += 1;
                }
                j += 1;
            }
            out.push(Tok::Str(cs[i..(j + 1).min(cs.len())].iter().collect()));
            i = j + 1;
        } else if c == '/' && i + 1 < cs.len() && cs[i + 1] == '/' {
            // a comment ends at a line feed or a carriage return (cedar's lexers: `//[^\n\r]*`)
            let mut j = i + 2;
            while j < cs.len() && cs[j] != '\n' && cs[j] != '\r' {
                j += 1;
            }
            out.push(Tok::Comment(cs[i + 2..j].iter().collect()));
            i = j;
        } else if c.is_alphanumeric() || c == '_' || (c == '?' && i + 1 < cs.len() && cs[i + 1].is_alphabetic()) {
            // `?principal` / `?resource` are single tokens
            let mut j = i + 1;
            while j < cs.len() && (cs[j].is_alphanumeric() || cs[j] == '_') {
                j += 1;
            }
            out.push(Tok::Word(cs[i..j].iter().collect()));
            i = j;
        } else {
            let two: String = cs[i..(i + 2).min(cs.len())].iter().collect();
            if ["==", "!=", "<=", ">=", "&&", "||", "::"].contains(&two.as_str()) {
                out.push(Tok::Punct(two));
                i += 2;
            } else {
                out.push(Tok::Punct(c.to_string()));
                i += 1;
            }
        }
    }
    out
}

pub fn comments_of(s: &str) -> Vec<String> {
    tokenize(s).into_iter().filter_map(|t| if let Tok::Comment(c) = t { Some(c.trim().to_string()) } else { None }).collect()
}

const COMMENT_BODIES: [&str; 12] = ["c", " plain comment", "\"quoted\"", " /* not a block */", " // double", " ünïcödé \u{1F600}", "", " permit(principal, action, resource);", " when { true }", "\t tab", " trailing space  ", "@annotation(\"x\")"];

/// Re-emit the token stream with comments / blank lines / odd whitespace injected at token boundaries.
fn inject(t: &mut Tape, toks: &[Tok], comment_rate: (u32, u32)) -> (String, usize) {
    let mut out = String::new();
    let mut injected = 0;
    let gap = |t: &mut Tape, out: &mut String, injected: &mut usize| {
        if t.bool_p(comment_rate.0, comment_rate.1) {
            let k = 1 + t.weighted(&[5, 1]);
            for _ in 0..k {
                out.push_str(if t.coin() { " //" } else { "\n//" });
                out.push_str(COMMENT_BODIES[t.upto(COMMENT_BODIES.len())]);
                // a unique tag makes every comment identifiable in the output
                out.push_str(&format!(" #{}", *injected));
                out.push('\n');
                *injected += 1;
                if t.bool_p(1, 4) {
                    out.push('\n');
                }
            }
        } else {
            match t.upto(10) {
                0 => out.push('\n'),
                1 => out.push_str("\n\n"),
                2 => out.push_str("   "),
                3 => out.push('\t'),
                _ => out.push(' '),
            }
        }
    };
    if t.bool_p(1, 4) {
        gap(t, &mut out, &mut injected);
    }
    for tok in toks {
        match tok {
            Tok::Str(s) | Tok::Word(s) | Tok::Punct(s) => out.push_str(s),
            Tok::Comment(c) => {
                out.push_str("//");
                out.push_str(c);
                out.push('\n');
            }
        }
        gap(t, &mut out, &mut injected);
    }
    (out, injected)
}

fn tok_class(t: Option<&Tok>) -> String {
    match t {
        None => "EOF".into(),
        Some(Tok::Str(_)) => "STR".into(),
        Some(Tok::Comment(_)) => "COMMENT".into(),
        Some(Tok::Word(w)) => {
            if ["permit", "forbid", "when", "unless", "if", "then", "else", "in", "is", "has", "like", "principal", "action", "resource", "context", "true", "false"].contains(&w.as_str()) {
                w.clone()
            } else if w.chars().all(|c| c.is_ascii_digit()) {
                "NUM".into()
            } else {
                "IDENT".into()
            }
        }
        Some(Tok::Punct(p)) => p.clone(),
    }
}

/// Where (between which kinds of tokens) does the first dropped comment sit in the input?
fn locate_dropped(input: &str, out_comments: &[String]) -> String {
    let toks = tokenize(input);
    for (i, t) in toks.iter().enumerate() {
        if let Tok::Comment(c) = t {
            if !out_comments.contains(&c.trim().to_string()) {
                let prev = toks[..i].iter().rev().find(|x| !matches!(x, Tok::Comment(_)));
                let mut after = toks[i + 1..].iter().filter(|x| !matches!(x, Tok::Comment(_)));
                let next = after.next();
                let next2 = after.next();
                if matches!(next, Some(Tok::Punct(p)) if p == ",") && matches!(next2, Some(Tok::Punct(p)) if ["}", "]", ")"].contains(&p.as_str())) {
                    return "before-trailing-comma".into();
                }
                if matches!(prev, Some(Tok::Punct(p)) if p == ",") && matches!(next, Some(Tok::Punct(p)) if ["}", "]", ")"].contains(&p.as_str())) {
                    return "after-trailing-comma".into();
                }
                return format!("between:{}:{}", tok_class(prev), tok_class(next));
            }
        }
    }
    "unlocated".into()
}

fn parse_set(txt: &str) -> Result<Vec<ast::Template>, String> {
    let set = parser::parse_policyset(txt).map_err(|e| e.to_string())?;
    let mut v: Vec<ast::Template> = set.all_templates().cloned().collect();
    // ids are policy<N> by position
    v.sort_by_key(|t| t.id().to_string().trim_start_matches("policy").parse::<usize>().unwrap_or(usize::MAX));
    Ok(v)
}

fn same_policies(a: &[ast::Template], b: &[ast::Template]) -> Result<(), String> {
    if a.len() != b.len() {
        return Err(format!("{} policies vs {}", a.len(), b.len()));
    }
    for (x, y) in a.iter().zip(b) {
        if x.id() != y.id() {
            return Err(format!("ids differ: {} vs {}", x.id(), y.id()));
        }
        // annotations in order
        let ax: Vec<(String, String)> = x.annotations().map(|(k, v)| (k.to_string(), v.val.to_string())).collect();
        let ay: Vec<(String, String)> = y.annotations().map(|(k, v)| (k.to_string(), v.val.to_string())).collect();
        if ax != ay {
            return Err(format!("{}: annotations {ax:?} vs {ay:?}", x.id()));
        }
        bridge::templates_equal(x, y).map_err(|e| format!("{}: {e}", x.id()))?;
    }
    Ok(())
}

const WIDTHS: [usize; 5] = [1, 10, 40, 80, 200];
const INDENTS: [isize; 4] = [0, 2, 4, 8];

fn case(t: &mut Tape, rec: &mut Rec<'_>) {
    let n = 1 + t.upto(3);
    let with_comments = t.bool_p(2, 3);
    let mut base = String::new();
    for _ in 0..n {
        let p = gen_ref_policy(t, rec);
        let sel = t.upto(3);
        let txt = match sel {
            0 => pemit::policy_text(&p, &mut text::Style::canonical()),
            1 => pemit::policy_text(&p, &mut text::Style::full()),
            _ => pemit::policy_text(&p, &mut text::Style::random(t)),
        };
        base.push_str(&txt);
        base.push('\n');
    }
    // longer entity type paths (three and four segments): every `::` is a token that can carry comments
    match t.upto(4) {
        0 => base = base.replace("NS::C", "NS::Mid::C"),
        1 => base = base.replace("NS::C", "NS::Mid::Deep::C"),
        _ => {}
    }
    rec.label_if(base.contains("NS::Mid::"), "long-type-path");
    let toks: Vec<Tok> = tokenize(&base).into_iter().filter(|t| with_comments || !matches!(t, Tok::Comment(_))).collect();
    let (input, _injected) = inject(t, &toks, if with_comments { (1, 10) } else { (0, 1) });
    let in_comments = comments_of(&input);
    rec.label(if in_comments.is_empty() { "comment-free" } else { "with-comments" });
    rec.label_if(in_comments.len() >= 2, "comments>=2");
    rec.nontrivial = in_comments.len() >= 2 || input.lines().any(|l| l.len() > 80);
    rec.set_key(&input);
    rec.render(|| format!("input:\n{input}"));
    let original = match parse_set(&input) {
        Ok(o) => o,
        Err(e) => {
            rec.fail("generated-text-rejected", format!("{e}\n{input}"));
            return;
        }
    };
    let k = rec.size(4, 20);
    let mut grid: Vec<(usize, isize)> = WIDTHS.iter().flat_map(|w| INDENTS.iter().map(move |i| (*w, *i))).collect();
    let perm = t.permutation(grid.len());
    grid = perm.iter().take(k).map(|i| grid[*i]).collect();
    for (w, ind) in grid {
        let cfg = Config { line_width: w, indent_width: ind };
        let ctx = format!("line_width={w} indent_width={ind}");
        // F1 total
        let out = match policies_str_to_pretty(&input, &cfg) {
            Ok(o) => o,
            Err(e) => {
                rec.fail("format-failed", format!("{ctx}: formatting a parseable policy set failed: {e:?}\ninput:\n{input}"));
                return;
            }
        };
        // F2 output parses to the same policies
        match parse_set(&out) {
            Ok(p2) => {
                if let Err(e) = same_policies(&original, &p2) {
                    rec.fail("format-changed-policies", format!("{ctx}: {e}\ninput:\n{input}\noutput:\n{out}"));
                    return;
                }
            }
            Err(e) => {
                rec.fail("format-output-unparseable", format!("{ctx}: {e}\ninput:\n{input}\noutput:\n{out}"));
                return;
            }
        }
        // F3 comments preserved in order
        let out_comments = comments_of(&out);
        if out_comments != in_comments {
            let sig = if out_comments.len() < in_comments.len() { format!("comment-dropped:{}", locate_dropped(&input, &out_comments)) } else if out_comments.len() > in_comments.len() { "comment-duplicated".to_string() } else { "comment-reordered-or-altered".to_string() };
            rec.fail(sig, format!("{ctx}: comments of the input {in_comments:?}\ncomments of the output {out_comments:?}\ninput:\n{input}\noutput:\n{out}"));
            return;
        }
        // F4/F5 re-formatting
        match policies_str_to_pretty(&out, &cfg) {
            Ok(out2) => {
                if in_comments.is_empty() && out2 != out {
                    rec.fail("not-idempotent", format!("{ctx}: formatting comment-free text is not idempotent\nfirst:\n{out}\nsecond:\n{out2}\ninput:\n{input}"));
                    return;
                }
                match parse_set(&out2) {
                    Ok(p3) => {
                        if let Err(e) = same_policies(&original, &p3) {
                            rec.fail("reformat-changed-policies", format!("{ctx}: {e}\nfirst:\n{out}\nsecond:\n{out2}"));
                            return;
                        }
                    }
                    Err(e) => {
                        rec.fail("format-output-unparseable", format!("{ctx}: second pass output: {e}\n{out2}"));
                        return;
                    }
                }
                if comments_of(&out2) != in_comments {
                    rec.fail("reformat-comment-lost", format!("{ctx}: re-formatting changed the comments: {:?} vs {in_comments:?}\nfirst:\n{out}\nsecond:\n{out2}", comments_of(&out2)));
                    return;
                }
            }
            Err(e) => {
                rec.fail("reformat-failed", format!("{ctx}: formatting the formatter's own output failed: {e:?}\n{out}"));
                return;
            }
        }
    }
}

pub fn property() -> Property {
    Property {
        id: "C12",
        rule: "1..3 reference policies/templates (C05's generator: all operators, nesting up to depth 4 / 6, annotations, escapes; trailing commas in scope, sets, records and argument lists; entity type paths of two to four segments) printed with random spelling, re-tokenised by the harness' own tokenizer (string-literal aware) and re-emitted with `//` comments (12 bodies incl. quotes, `/*`, `//`, non-ASCII, empty) \
               and blank lines / tabs / long runs of spaces injected at random token boundaries (before the first and after the last token too); 2/3 of the inputs carry comments, 1/3 are comment-free. For 4 (thorough: all 20) of the (line_width, indent_width) pairs in {1,10,40,80,200} x {0,2,4,8}: \
               formatting succeeds; the output parses to pairwise equal policies (ids, annotations in order, effect, scope, conditions); the sequence of comment bodies is unchanged; re-formatting the output again preserves policies and comments and, for comment-free input, is the identity. \
               Non-trivial = >=2 comments or a line longer than 80 columns.",
        assumptions: &["harness tokenizer (comment extraction) and text emitter", "structural equality of parsed policies (bridge::templates_equal)"],
        subs: vec![SubCheck { name: "format", cases: (60_000, 600_000), tape_len: 3000, run: case, min_labels: &[("comment-free", 12_000), ("with-comments", 25_000), ("comments>=2", 15_000), ("long-type-path", 8000)] }],
    }
}
