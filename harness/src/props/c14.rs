//! C14 — type-aware partial evaluation (TPE) and permission queries are sound.

use crate::bridge;
use crate::engine::{Property, Rec, SubCheck};
use crate::gen::s::{self, SchemaOpts};
use crate::props::c01::norm;
use crate::props::scase::{self, AuthCase, AuthOpts};
use crate::refmodel::*;
use crate::tape::Tape;
use cedar_policy::{
    ActionQueryRequest, Authorizer, Decision, Entities, EntityId, EntityTypeName, EntityUid, PartialEntities, PartialEntity, PartialEntityUid, PartialRequest, Policy, PolicyId, PolicySet,
    PrincipalQueryRequest, Request, ResourceQueryRequest, RestrictedExpression,
};
use smol_str::SmolStr;
use std::collections::{BTreeMap, BTreeSet, HashSet};
use std::str::FromStr;

#[derive(Clone, Copy, Debug, PartialEq, Eq)]
enum Out {
    Sat,
    Unsat,
    Err,
}

/// outcome of one policy on a concrete request/store (through the authorizer, as an ordinary policy)
fn outcome(p: &Policy, req: &Request, ents: &Entities) -> Out {
    let ps = match PolicySet::from_policies([p.clone()]) {
        Ok(ps) => ps,
        Err(_) => return Out::Err,
    };
    let r = Authorizer::new().is_authorized(req, &ps, ents);
    if r.diagnostics().errors().next().is_some() {
        Out::Err
    } else if r.diagnostics().reason().next().is_some() {
        Out::Sat
    } else {
        Out::Unsat
    }
}

struct Erasure {
    principal_unknown: bool,
    resource_unknown: bool,
    context_unknown: bool,
    attrs_unknown: BTreeSet<Uid>,
    ancestors_unknown: BTreeSet<Uid>,
    tags_unknown: BTreeSet<Uid>,
    absent: BTreeSet<Uid>,
}

fn gen_erasure(t: &mut Tape, c: &AuthCase) -> Erasure {
    let mut e = Erasure {
        principal_unknown: t.bool_p(1, 3),
        resource_unknown: t.bool_p(1, 3),
        context_unknown: t.bool_p(1, 3),
        attrs_unknown: BTreeSet::new(),
        ancestors_unknown: BTreeSet::new(),
        tags_unknown: BTreeSet::new(),
        absent: BTreeSet::new(),
    };
    for u in c.world.entities.keys() {
        if t.bool_p(1, 8) {
            e.absent.insert(u.clone());
            continue;
        }
        if t.bool_p(1, 4) {
            e.attrs_unknown.insert(u.clone());
        }
        if t.bool_p(1, 4) {
            e.ancestors_unknown.insert(u.clone());
        }
        if t.bool_p(1, 4) {
            e.tags_unknown.insert(u.clone());
        }
    }
    // documented restriction: an entity that occurs among known ancestors must itself have known ancestors
    loop {
        let mut changed = false;
        for u in c.world.entities.keys() {
            if e.absent.contains(u) || e.ancestors_unknown.contains(u) {
                continue;
            }
            for a in c.world.ancestors(u) {
                if e.ancestors_unknown.remove(&a) {
                    changed = true;
                }
                if e.absent.remove(&a) {
                    // an absent (fully unknown) ancestor is treated like one with unknown ancestors: keep it present
                    changed = true;
                }
            }
        }
        if !changed {
            break;
        }
    }
    e
}

fn smol_map(m: &BTreeMap<String, V>) -> BTreeMap<SmolStr, RestrictedExpression> {
    m.iter().map(|(k, v)| (SmolStr::new(k), bridge::rexpr(v))).collect()
}

fn partial_entities(c: &AuthCase, e: &Erasure) -> Result<PartialEntities, String> {
    let mut v = Vec::new();
    for (u, d) in &c.world.entities {
        if e.absent.contains(u) {
            continue;
        }
        let attrs = if e.attrs_unknown.contains(u) { None } else { Some(smol_map(&d.attrs)) };
        let anc: Option<HashSet<EntityUid>> = if e.ancestors_unknown.contains(u) { None } else { Some(c.world.ancestors(u).iter().map(bridge::euid).collect()) };
        let tags = if e.tags_unknown.contains(u) { None } else { Some(smol_map(&d.tags)) };
        v.push(PartialEntity::new(bridge::euid(u), attrs, anc, tags, &c.schema).map_err(|er| format!("PartialEntity::new({}::{:?}): {er}", u.ty, u.id))?);
    }
    PartialEntities::from_partial_entities(v, &c.schema).map_err(|er| format!("from_partial_entities: {er}"))
}

fn partial_request(c: &AuthCase, e: &Erasure) -> Result<PartialRequest, String> {
    let pe = |u: &Uid, unknown: bool| {
        if unknown {
            PartialEntityUid::new(EntityTypeName::from_str(&u.ty).unwrap(), None)
        } else {
            PartialEntityUid::from_concrete(bridge::euid(u))
        }
    };
    let ctx = if e.context_unknown { None } else { Some(bridge::context(&c.req.context)?) };
    PartialRequest::new(pe(&c.req.principal, e.principal_unknown), bridge::euid(&c.req.action), pe(&c.req.resource, e.resource_unknown), ctx, &c.schema).map_err(|er| er.to_string())
}

/// concrete completions consistent with the partial inputs: the original world plus regenerated erased parts
fn completions(t: &mut Tape, c: &AuthCase, e: &Erasure, k: usize) -> Vec<(World, Req, Entities, Request)> {
    let mut out = vec![(c.world.clone(), c.req.clone(), c.ents.clone(), c.creq.clone())];
    let a = c.rs.action(&c.req.action).unwrap();
    for _ in 0..k {
        let mut w = c.world.clone();
        let mut r = c.req.clone();
        for u in e.attrs_unknown.iter().chain(e.absent.iter()) {
            if let (Some(d), Some(et)) = (w.entities.get_mut(u), c.rs.et(&u.ty)) {
                d.attrs = s::gen_attr_values(t, &et.attrs, &c.rs, 2);
            }
        }
        for u in e.tags_unknown.iter().chain(e.absent.iter()) {
            if let (Some(d), Some(et)) = (w.entities.get_mut(u), c.rs.et(&u.ty)) {
                if let Some(tt) = &et.tags {
                    d.tags.clear();
                    let n = t.upto(3);
                    for _ in 0..n {
                        d.tags.insert(s::TAG_KEYS[t.upto(s::TAG_KEYS.len())].to_string(), s::gen_value_of(t, tt, &c.rs, 1));
                    }
                }
            }
        }
        for u in e.ancestors_unknown.iter().chain(e.absent.iter()) {
            // drop some parents (stays conformant and acyclic)
            if let Some(d) = w.entities.get_mut(u) {
                let keep: BTreeSet<Uid> = d.parents.iter().filter(|_| t.coin()).cloned().collect();
                d.parents = keep;
            }
        }
        // an absent entity may also really be absent
        for u in &e.absent {
            if t.bool_p(1, 3) && *u != c.req.principal && *u != c.req.resource {
                w.entities.remove(u);
            }
        }
        if e.principal_unknown {
            r.principal = s::gen_uid_of(t, &c.rs, &c.req.principal.ty);
        }
        if e.resource_unknown {
            r.resource = s::gen_uid_of(t, &c.rs, &c.req.resource.ty);
        }
        if e.context_unknown {
            r.context = s::gen_attr_values(t, &a.context, &c.rs, 2);
        }
        if let (Ok(ents), Ok(creq)) = (scase::build_entities(&w, &c.schema), scase::build_request(&r, &c.schema)) {
            out.push((w, r, ents, creq));
        }
    }
    out
}

fn cond_text(p: &Policy) -> String {
    format!("{:?}|{}", p.effect(), p.as_ref().condition())
}

fn tpe_case(t: &mut Tape, rec: &mut Rec<'_>) {
    let o = AuthOpts { closed_16: 0, schema: SchemaOpts { chains: true, ..SchemaOpts::default() }, max_policies: rec.size(3, 5), depth: rec.size(2, 3), path_budget: 3, traps: false };
    let c = match scase::gen_auth_case(t, &o) {
        Ok(c) => c,
        Err(e) => {
            rec.discard(e.split(':').next().unwrap_or("discard").to_string());
            return;
        }
    };
    let er = gen_erasure(t, &c);
    let desc = format!(
        "erased: principal id={} resource id={} context={} attrs of {:?} ancestors of {:?} tags of {:?} absent {:?}",
        er.principal_unknown,
        er.resource_unknown,
        er.context_unknown,
        er.attrs_unknown.iter().map(|u| format!("{}::{:?}", u.ty, u.id)).collect::<Vec<_>>(),
        er.ancestors_unknown.iter().map(|u| format!("{}::{:?}", u.ty, u.id)).collect::<Vec<_>>(),
        er.tags_unknown.iter().map(|u| format!("{}::{:?}", u.ty, u.id)).collect::<Vec<_>>(),
        er.absent.iter().map(|u| format!("{}::{:?}", u.ty, u.id)).collect::<Vec<_>>()
    );
    rec.set_key(&(c.render(), desc.clone()));
    rec.render(|| format!("{}\n{desc}", c.render()));
    let (preq, pents) = match (partial_request(&c, &er), partial_entities(&c, &er)) {
        (Ok(a), Ok(b)) => (a, b),
        (a, b) => {
            rec.label("partial-input-rejected");
            rec.fail("partial-input-rejected", format!("partial inputs derived by erasure from a conformant world were rejected: {:?} {:?}\n{}\n{desc}", a.err(), b.err(), c.render()));
            return;
        }
    };
    let resp = match c.pset.tpe(&preq, &pents, &c.schema) {
        Ok(r) => r,
        Err(e) => {
            rec.fail("tpe-error", format!("tpe failed on validated policies: {e}\n{}\n{desc}", c.render()));
            return;
        }
    };
    let dec = resp.decision();
    rec.label(match dec {
        Some(Decision::Allow) => "tpe:allow",
        Some(Decision::Deny) => "tpe:deny",
        None => "tpe:residual",
    });
    let comps = completions(t, &c, &er, rec.size(2, 4));
    let auth = Authorizer::new();
    let ident = |s: &str| s.to_string();
    // T3: all views present the same residuals
    let pols: BTreeMap<String, Policy> = resp.policies().map(|p| (p.id().to_string(), p)).collect();
    let set = resp.policy_set();
    let ids: BTreeSet<String> = c.policies.iter().map(|(id, _, _)| id.clone()).collect();
    if pols.keys().cloned().collect::<BTreeSet<_>>() != ids {
        rec.fail("view:policies-ids", format!("policies() yields ids {:?}, input ids {ids:?}", pols.keys()));
        return;
    }
    let set_ids: BTreeSet<String> = set.policies().map(|p| p.id().to_string()).collect();
    if set_ids != ids {
        rec.fail("view:policy_set-ids", format!("policy_set() holds ids {set_ids:?}, input ids {ids:?}"));
        return;
    }
    let residual_ids: BTreeSet<String> = resp.residual_permits().chain(resp.residual_forbids()).map(|i| i.to_string()).collect();
    let nontrivial: BTreeMap<String, Policy> = resp.residual_policies().map(|p| (p.id().to_string(), p)).collect();
    if nontrivial.keys().cloned().collect::<BTreeSet<_>>() != residual_ids {
        rec.fail("view:residual_policies-ids", format!("residual_policies() ids {:?} != residual_permits()+residual_forbids() {residual_ids:?}", nontrivial.keys()));
        return;
    }
    let mut unknown_dependent = 0;
    for id in &ids {
        let p = &pols[id];
        let via_set = set.policy(&PolicyId::new(id)).cloned();
        let via_get = resp.get_policy(&PolicyId::new(id));
        for (what, q) in [("policy_set()", via_set), ("get_policy()", via_get), ("residual_policies()", nontrivial.get(id).cloned())] {
            match q {
                Some(q) => {
                    if cond_text(&q) != cond_text(p) {
                        rec.fail(
                            format!("view:{what}!=policies()"),
                            format!("policy {id}: {what} presents\n  {}\nbut policies() presents\n  {}\n{}\n{desc}", q.as_ref().condition(), p.as_ref().condition(), c.render()),
                        );
                        if rec.failed() {
                            return;
                        }
                    }
                }
                None if what == "residual_policies()" => {}
                None => {
                    rec.fail(format!("view:{what}-missing"), format!("policy {id} missing from {what}"));
                    return;
                }
            }
        }
        if residual_ids.contains(id) {
            unknown_dependent += 1;
        }
    }
    // buckets partition the ids
    let buckets: Vec<(&str, BTreeSet<String>)> = vec![
        ("true_permits", resp.true_permits().map(|i| i.to_string()).collect()),
        ("false_permits", resp.false_permits().map(|i| i.to_string()).collect()),
        ("error_permits", resp.error_permits().map(|i| i.to_string()).collect()),
        ("residual_permits", resp.residual_permits().map(|i| i.to_string()).collect()),
        ("true_forbids", resp.true_forbids().map(|i| i.to_string()).collect()),
        ("false_forbids", resp.false_forbids().map(|i| i.to_string()).collect()),
        ("error_forbids", resp.error_forbids().map(|i| i.to_string()).collect()),
        ("residual_forbids", resp.residual_forbids().map(|i| i.to_string()).collect()),
    ];
    let total: usize = buckets.iter().map(|(_, b)| b.len()).sum();
    let union: BTreeSet<String> = buckets.iter().flat_map(|(_, b)| b.iter().cloned()).collect();
    if total != ids.len() || union != ids {
        rec.fail("view:buckets-partition", format!("the true/false/error/residual buckets do not partition the policy ids: {buckets:?}"));
        return;
    }
    // T1, T2, T4 on every completion
    for (i, (w, r, ents, creq)) in comps.iter().enumerate() {
        let truth = norm(&auth.is_authorized(creq, &c.pset, ents), &ident);
        if let Some(d) = dec {
            if (d == Decision::Allow) != truth.allow {
                rec.fail("tpe-decision-unsound", format!("TPE decided {d:?} but completion #{i} is {}\ncompletion: {}\n{}\n{desc}", if truth.allow { "allowed" } else { "denied" }, scase::render_case(&c.rs, w, Some(r)), c.render()));
                return;
            }
        }
        for (id, _, _) in &c.policies {
            let orig = c.pset.policy(&PolicyId::new(id)).unwrap();
            let o1 = outcome(orig, creq, ents);
            let o2 = outcome(&pols[id], creq, ents);
            if o1 != o2 {
                rec.fail(
                    format!("residual-outcome:{o1:?}->{o2:?}"),
                    format!("policy {id}: original is {o1:?} on completion #{i}, its residual `{}` is {o2:?}\ncompletion: {}\n{}\n{desc}", pols[id].as_ref().condition(), scase::render_case(&c.rs, w, Some(r)), c.render()),
                );
                return;
            }
            // bucket consistency
            let in_bucket = |n: &str| buckets.iter().find(|(b, _)| *b == n).map(|(_, s)| s.contains(id)).unwrap_or(false);
            let ok = if in_bucket("true_permits") || in_bucket("true_forbids") {
                o1 == Out::Sat
            } else if in_bucket("false_permits") || in_bucket("false_forbids") {
                o1 == Out::Unsat
            } else if in_bucket("error_permits") || in_bucket("error_forbids") {
                o1 == Out::Err
            } else {
                true
            };
            if !ok {
                rec.fail("bucket-unsound", format!("policy {id} is in a definite bucket of the TPE response but behaves as {o1:?} on completion #{i}\ncompletion: {}\n{}\n{desc}", scase::render_case(&c.rs, w, Some(r)), c.render()));
                return;
            }
        }
        match resp.reauthorize(creq, ents) {
            Ok(rr) => {
                let got = norm(&rr, &ident);
                if got.allow != truth.allow || got.reasons != truth.reasons {
                    rec.fail("reauthorize", format!("reauthorize on completion #{i} gives {got:?}, authorization from scratch gives {truth:?}\ncompletion: {}\n{}\n{desc}", scase::render_case(&c.rs, w, Some(r)), c.render()));
                    return;
                }
            }
            Err(e) => {
                // reauthorize validates consistency of the completion with the partial inputs
                rec.fail("reauthorize-rejected", format!("reauthorize rejected a consistent completion #{i}: {e}\ncompletion: {}\n{}\n{desc}", scase::render_case(&c.rs, w, Some(r)), c.render()));
                return;
            }
        }
    }
    rec.label_if(unknown_dependent > 0, "has-residual");
    rec.label_if(!er.ancestors_unknown.is_empty(), "unknown-ancestors");
    rec.label_if(!er.tags_unknown.is_empty() && c.uses_tags, "unknown-tags-used");
    rec.nontrivial = unknown_dependent > 0;
}

fn query_case(t: &mut Tape, rec: &mut Rec<'_>) {
    let o = AuthOpts { closed_16: 0, schema: SchemaOpts { chains: true, ..SchemaOpts::default() }, max_policies: rec.size(3, 5), depth: 2, path_budget: 3, traps: false };
    let c = match scase::gen_auth_case(t, &o) {
        Ok(c) => c,
        Err(e) => {
            rec.discard(e.split(':').next().unwrap_or("discard").to_string());
            return;
        }
    };
    rec.set_key(&c.render());
    rec.render(|| c.render());
    let auth = Authorizer::new();
    let ctx = bridge::context(&c.req.context).unwrap();
    let (p, a, r) = (bridge::euid(&c.req.principal), bridge::euid(&c.req.action), bridge::euid(&c.req.resource));
    let brute = |ty: &str, principal_side: bool| -> BTreeSet<String> {
        c.ents
            .iter()
            .filter(|e| e.uid().type_name().to_string() == ty)
            .filter(|e| {
                let rq = if principal_side { Request::new(e.uid(), a.clone(), r.clone(), ctx.clone(), None) } else { Request::new(p.clone(), a.clone(), e.uid(), ctx.clone(), None) };
                rq.map(|rq| auth.is_authorized(&rq, &c.pset, &c.ents).decision() == Decision::Allow).unwrap_or(false)
            })
            .map(|e| e.uid().to_string())
            .collect()
    };
    // resource query
    match ResourceQueryRequest::new(p.clone(), a.clone(), EntityTypeName::from_str(&c.req.resource.ty).unwrap(), ctx.clone(), &c.schema) {
        Ok(q) => match c.pset.query_resource(&q, &c.ents, &c.schema) {
            Ok(it) => {
                let got: BTreeSet<String> = it.map(|u| u.to_string()).collect();
                let want = brute(&c.req.resource.ty, false);
                rec.label_if(!want.is_empty(), "query_resource:nonempty");
                if got != want {
                    rec.fail("query_resource", format!("query_resource returns {got:?}; the resources of that type for which the concrete request is allowed are {want:?}\n{}", c.render()));
                    return;
                }
            }
            Err(e) => {
                rec.fail("query_resource-error", format!("{e}\n{}", c.render()));
                return;
            }
        },
        Err(e) => {
            rec.fail("query-request-rejected", format!("ResourceQueryRequest::new rejected a conformant request: {e}\n{}", c.render()));
            return;
        }
    }
    match PrincipalQueryRequest::new(EntityTypeName::from_str(&c.req.principal.ty).unwrap(), a.clone(), r.clone(), ctx.clone(), &c.schema) {
        Ok(q) => match c.pset.query_principal(&q, &c.ents, &c.schema) {
            Ok(it) => {
                let got: BTreeSet<String> = it.map(|u| u.to_string()).collect();
                let want = brute(&c.req.principal.ty, true);
                rec.label_if(!want.is_empty(), "query_principal:nonempty");
                if got != want {
                    rec.fail("query_principal", format!("query_principal returns {got:?}; the principals of that type for which the concrete request is allowed are {want:?}\n{}", c.render()));
                    return;
                }
            }
            Err(e) => {
                rec.fail("query_principal-error", format!("{e}\n{}", c.render()));
                return;
            }
        },
        Err(e) => {
            rec.fail("query-request-rejected", format!("PrincipalQueryRequest::new rejected a conformant request: {e}\n{}", c.render()));
            return;
        }
    }
    // action query with concrete principal/resource and unknown context
    let pents = match PartialEntities::from_concrete(c.ents.clone(), &c.schema) {
        Ok(p) => p,
        Err(e) => {
            rec.fail("partial-input-rejected", format!("PartialEntities::from_concrete: {e}"));
            return;
        }
    };
    let with_ctx = t.coin();
    match ActionQueryRequest::new(PartialEntityUid::from_concrete(p.clone()), PartialEntityUid::from_concrete(r.clone()), if with_ctx { Some(ctx.clone()) } else { None }, c.schema.clone()) {
        Ok(q) => match c.pset.query_action(&q, &pents) {
            Ok(it) => {
                let got: BTreeMap<String, Option<Decision>> = it.map(|(u, d)| (u.to_string(), d)).collect();
                for act in s::appliable_actions(&c.rs) {
                    if !act.principals.contains(&c.req.principal.ty) || !act.resources.contains(&c.req.resource.ty) {
                        continue;
                    }
                    // a conformant context for this action: the request's own if it is this action, else generated
                    let k = if with_ctx { 1 } else { 3 };
                    for _ in 0..k {
                        let cvals = if act.uid() == c.req.action || with_ctx { c.req.context.clone() } else { s::gen_attr_values(t, &act.context, &c.rs, 2) };
                        let rq = Req { principal: c.req.principal.clone(), action: act.uid(), resource: c.req.resource.clone(), context: cvals };
                        let Ok(creq) = scase::build_request(&rq, &c.schema) else { continue };
                        let allowed = auth.is_authorized(&creq, &c.pset, &c.ents).decision() == Decision::Allow;
                        let key = bridge::euid(&act.uid()).to_string();
                        match got.get(&key) {
                            None if allowed => {
                                rec.fail("query_action:omitted-allowed", format!("query_action omits {key} although the concrete request {rq:?} is allowed\nresult: {got:?}\n{}", c.render()));
                                return;
                            }
                            Some(Some(Decision::Allow)) if !allowed => {
                                rec.fail("query_action:definitely-allowed-but-denied", format!("query_action labels {key} definitely allowed but the concrete request {rq:?} is denied\n{}", c.render()));
                                return;
                            }
                            _ => {}
                        }
                        rec.label_if(allowed, "query_action:allowed-action");
                    }
                }
            }
            Err(e) => {
                rec.fail("query_action-error", format!("{e}\n{}", c.render()));
                return;
            }
        },
        Err(e) => {
            rec.fail("query-request-rejected", format!("ActionQueryRequest::new: {e}"));
            return;
        }
    }
    rec.nontrivial = true;
    let _ = EntityId::from_str("x");
}

pub fn property() -> Property {
    Property {
        id: "C14",
        rule: "tpe: C16's generator gives a schema, strictly valid policies and a concrete conformant world W; partial inputs are derived from W by erasure (principal id, resource id, context; per entity attributes / ancestors / tags; whole entities), respecting the documented restriction on known ancestors, \
               so W is a consistent completion by construction; 2 (thorough 4) more completions re-generate the erased parts conformantly. Oracles: a definite decision equals ordinary authorization on every completion; each residual policy (evaluated as an ordinary policy) is satisfied / unsatisfied / erroring exactly when its original is; \
               policies(), policy_set(), get_policy(), residual_policies() present the same residual per id and the eight buckets partition the ids consistently; reauthorize equals authorization from scratch. \
               queries: query_resource / query_principal equal brute force over the store's entities of the type; query_action never omits an allowed action nor labels a denied one definitely allowed. Non-trivial = >=1 residual policy (tpe).",
        assumptions: &["World-S conformance and conformant re-generation of erased parts (validated by the library)", "residuals are evaluated through the ordinary authorizer"],
        subs: vec![
            SubCheck { name: "tpe", cases: (120_000, 2_400_000), tape_len: 5000, run: tpe_case, min_labels: &[("has-residual", 30_000), ("tpe:residual", 18_000), ("tpe:deny", 12_000), ("unknown-ancestors", 30_000)] },
            SubCheck { name: "queries", cases: (60_000, 1_200_000), tape_len: 4500, run: query_case, min_labels: &[("query_resource:nonempty", 1800), ("query_principal:nonempty", 1800), ("query_action:allowed-action", 3000)] },
        ],
    }
}
