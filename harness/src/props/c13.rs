//! C13 — partial evaluation with unknowns is sound.

use crate::bridge;
use crate::emit::{policy as pemit, text};
use crate::engine::{Property, Rec, SubCheck};
use crate::gen::u;
use crate::props::c01::{self, norm, GP};
use crate::refmodel::{self as rm, Req, Uid, World, V};
use crate::tape::Tape;
use cedar_policy::{Authorizer, Context, Decision, Entities, Entity, EntityTypeName, PolicyId, PolicySet, Request, RestrictedExpression};
use std::collections::{BTreeSet, HashSet};
use std::str::FromStr;

#[derive(Clone, Debug, PartialEq)]
enum UnkP {
    Known,
    Untyped,
    Typed,
}

#[derive(Clone, Debug)]
struct Erasure {
    principal: UnkP,
    resource: UnkP,
    context_whole: bool,
    context_attrs: BTreeSet<String>,
    entity_attrs: BTreeSet<(Uid, String)>,
    removed_entities: BTreeSet<Uid>,
    partial_store: bool,
}

fn unk_name(u: &Uid, a: &str) -> String {
    format!("e:{}:{}:{}", u.ty, u.id, a)
}

fn build_partial_entities(w: &World, e: &Erasure) -> Result<Entities, String> {
    let mut v = Vec::new();
    for (u, d) in &w.entities {
        if e.removed_entities.contains(u) {
            continue;
        }
        let attrs = d.attrs.iter().map(|(k, val)| {
            let rx = if e.entity_attrs.contains(&(u.clone(), k.clone())) { RestrictedExpression::new_unknown(unk_name(u, k)) } else { bridge::rexpr(val) };
            (k.clone(), rx)
        });
        // every present entity keeps its full ancestor set: a partial store only defers *dereferencing* missing entities,
        // membership through a removed entity must still be recorded on its descendants
        let ent = Entity::new_with_tags(bridge::euid(u), attrs, w.ancestors(u).iter().map(bridge::euid).collect::<HashSet<_>>(), d.tags.iter().map(|(k, v)| (k.clone(), bridge::rexpr(v)))).map_err(|x| x.to_string())?;
        v.push(ent);
    }
    let ents = Entities::from_entities(v, None).map_err(|x| x.to_string())?;
    Ok(if e.partial_store { ents.partial() } else { ents })
}

fn build_partial_request(r: &Req, e: &Erasure) -> Result<Request, String> {
    let mut b = Request::builder().action(bridge::euid(&r.action));
    b = match e.principal {
        UnkP::Known => b.principal(bridge::euid(&r.principal)),
        UnkP::Untyped => b,
        UnkP::Typed => b.unknown_principal_with_type(EntityTypeName::from_str(&r.principal.ty).unwrap()),
    };
    b = match e.resource {
        UnkP::Known => b.resource(bridge::euid(&r.resource)),
        UnkP::Untyped => b,
        UnkP::Typed => b.unknown_resource_with_type(EntityTypeName::from_str(&r.resource.ty).unwrap()),
    };
    if !e.context_whole {
        let pairs = r.context.iter().map(|(k, v)| (k.clone(), if e.context_attrs.contains(k) { RestrictedExpression::new_unknown(format!("c:{k}")) } else { bridge::rexpr(v) }));
        b = b.context(Context::from_pairs(pairs).map_err(|x| x.to_string())?);
    }
    Ok(b.build())
}

/// One substitution of the unknowns: the concrete world/request it denotes and the binding map.
struct Subst {
    world: World,
    req: Req,
    bindings: Vec<(String, RestrictedExpression)>,
}

fn gen_subst(t: &mut Tape, w: &World, r: &Req, e: &Erasure, truth: bool) -> Subst {
    let mut world = w.clone();
    let mut req = r.clone();
    let mut bindings = Vec::new();
    let pool = u::uid_pool();
    let pick_uid = |t: &mut Tape, orig: &Uid, typed: bool| -> Uid {
        if truth {
            return orig.clone();
        }
        let cands: Vec<&Uid> = pool.iter().filter(|u| !typed || u.ty == orig.ty).collect();
        if cands.is_empty() {
            orig.clone()
        } else {
            cands[t.upto(cands.len())].clone()
        }
    };
    if e.principal != UnkP::Known {
        req.principal = pick_uid(t, &r.principal, e.principal == UnkP::Typed);
        bindings.push(("principal".to_string(), RestrictedExpression::new_entity_uid(bridge::euid(&req.principal))));
    }
    if e.resource != UnkP::Known {
        req.resource = pick_uid(t, &r.resource, e.resource == UnkP::Typed);
        bindings.push(("resource".to_string(), RestrictedExpression::new_entity_uid(bridge::euid(&req.resource))));
    }
    if e.context_whole {
        if !truth {
            req.context = u::gen_req(t).context;
        }
        bindings.push(("context".to_string(), bridge::rexpr(&V::Rec(req.context.clone()))));
    } else {
        for k in &e.context_attrs {
            if !truth {
                let kind = u::KINDS[t.upto(u::KINDS.len())];
                req.context.insert(k.clone(), u::gen_value(t, kind, 2));
            }
            bindings.push((format!("c:{k}"), bridge::rexpr(&req.context[k])));
        }
    }
    for (u_, a) in &e.entity_attrs {
        if !truth {
            let kind = u::KINDS[t.upto(u::KINDS.len())];
            world.entities.get_mut(u_).unwrap().attrs.insert(a.clone(), u::gen_value(t, kind, 2));
        }
        bindings.push((unk_name(u_, a), bridge::rexpr(&world.entities[u_].attrs[a])));
    }
    Subst { world, req, bindings }
}

fn case(t: &mut Tape, rec: &mut Rec<'_>) {
    let world = u::gen_world(t);
    let req = u::gen_req(t);
    let cx = rm::Ctx { req: &req, world: &world };
    let n = 1 + t.upto(rec.size(5, 8));
    let gps: Vec<GP> = c01::gen_policies(t, n, &cx, 3);
    let mut gps = gps;
    // a policy whose condition uses the result of `&&` / `||` over a (to be erased) context attribute in a
    // non-boolean-demanding position: `(b && context.a) == v` — the type check of the right operand matters
    if !req.context.is_empty() && t.bool_p(1, 2) {
        use crate::refmodel::policy::{ActC, PrC, RPolicy};
        use crate::refmodel::{b, BinOp, Var, E};
        let keys: Vec<&String> = req.context.keys().collect();
        let a = keys[t.upto(keys.len())].clone();
        let a2 = a.clone();
        let lhs_bool = u::gen_expr(t, 1, u::K::Bool);
        let conn = if t.coin() { E::And(b(lhs_bool), b(E::GetAttr(b(E::Var(Var::Context)), a))) } else { E::Or(b(lhs_bool), b(E::GetAttr(b(E::Var(Var::Context)), a))) };
        let kind = u::KINDS[t.upto(u::KINDS.len())];
        let v = crate::emit::text::value_expr(&u::gen_value(t, kind, 1));
        let cond = match t.upto(6) {
            0 => E::Bin(BinOp::Eq, b(conn), b(v)),
            1 => E::Bin(BinOp::Contains, b(E::Set(vec![conn])), b(v)),
            2 => E::Bin(BinOp::Neq, b(v), b(conn)),
            // a record literal is evaluated as a whole: a field that is not projected can still error under a substitution
            3 => E::GetAttr(b(E::Rec(vec![("ids".to_string(), E::Set(vec![E::Bin(BinOp::Add, b(E::GetAttr(b(E::Var(Var::Context)), a2.clone())), b(E::long(1)))])), ("ok".to_string(), u::gen_expr(t, 1, u::K::Bool))])), "ok".to_string()),
            4 => E::Has(b(E::Rec(vec![("label".to_string(), v), ("tags".to_string(), E::Set(vec![E::Set(vec![E::Bin(BinOp::Mul, b(E::GetAttr(b(E::Var(Var::Context)), a2.clone())), b(E::long(2)))])]))])), vec![(*t.pick(&["label", "other"])).to_string()]),
            _ => E::GetAttr(b(E::Rec(vec![("x".to_string(), conn), ("ok".to_string(), u::gen_expr(t, 1, u::K::Bool))])), "ok".to_string()),
        };
        let src = RPolicy { permit: t.coin(), principal: PrC::Any, action: ActC::Any, resource: PrC::Any, conds: vec![(true, cond)], annotations: vec![] };
        let (outcome, _) = src.outcome(&cx);
        gps.push(GP { id: "extra-connective".to_string(), src: src.clone(), link: None, meaning: src, outcome });
    }
    let n = gps.len();
    let order: Vec<usize> = (0..n).collect();
    let ident = |s: &str| s.to_string();
    let ps: PolicySet = match c01::build_set(&gps, &order, &ident) {
        Ok(p) => p,
        Err(e) => {
            rec.fail("policy-set-construction", e);
            return;
        }
    };
    // erasure
    let pu = |t: &mut Tape| match t.weighted(&[3, 1, 1]) {
        0 => UnkP::Known,
        1 => UnkP::Untyped,
        _ => UnkP::Typed,
    };
    let mut er = Erasure { principal: pu(t), resource: pu(t), context_whole: t.bool_p(1, 5), context_attrs: BTreeSet::new(), entity_attrs: BTreeSet::new(), removed_entities: BTreeSet::new(), partial_store: t.bool_p(1, 4) };
    if !er.context_whole {
        for k in req.context.keys() {
            if t.bool_p(1, 3) {
                er.context_attrs.insert(k.clone());
            }
        }
    }
    for (u_, d) in &world.entities {
        for k in d.attrs.keys() {
            if t.bool_p(1, 8) {
                er.entity_attrs.insert((u_.clone(), k.clone()));
            }
        }
        if er.partial_store && t.bool_p(1, 5) && u_.ty != "Action" {
            er.removed_entities.insert(u_.clone());
        }
    }
    er.entity_attrs.retain(|(u_, _)| !er.removed_entities.contains(u_));
    let render = |rec: &mut Rec<'_>| {
        rec.render(|| {
            let c = &mut text::Style::canonical();
            format!(
                "{}\nrequest: {req:?}\nentities: {}\nerasure: {er:?}",
                gps.iter().map(|g| format!("// id={:?} link={:?}\n{}", g.id, g.link, pemit::policy_text(&g.src, c))).collect::<Vec<_>>().join("\n"),
                bridge::entities(&world).and_then(|e| e.to_json_value().map_err(|x| x.to_string())).map(|j| j.to_string()).unwrap_or_default()
            )
        })
    };
    rec.set_key(&format!("{gps:?}{req:?}{er:?}"));
    let (pents, preq) = match (build_partial_entities(&world, &er), build_partial_request(&req, &er)) {
        (Ok(a), Ok(b)) => (a, b),
        (a, b) => {
            rec.discard("partial-input-construction");
            rec.render(|| format!("{:?} {:?}", a.err(), b.err()));
            return;
        }
    };
    let auth = Authorizer::new();
    render(rec);
    let presp = auth.is_authorized_partial(&preq, &ps, &pents);
    let dec = presp.decision();
    let may: BTreeSet<String> = presp.may_be_determining().map(|p| AsRef::<str>::as_ref(p.id()).to_string()).collect();
    let must: BTreeSet<String> = presp.must_be_determining().map(|p| AsRef::<str>::as_ref(p.id()).to_string()).collect();
    let def_sat: BTreeSet<String> = presp.definitely_satisfied().map(|p| AsRef::<str>::as_ref(p.id()).to_string()).collect();
    let def_err: BTreeSet<String> = presp.definitely_errored().map(|p| AsRef::<str>::as_ref(p).to_string()).collect();
    let residuals = presp.nontrivial_residuals().count();
    let any_unknown = er.principal != UnkP::Known || er.resource != UnkP::Known || er.context_whole || !er.context_attrs.is_empty() || !er.entity_attrs.is_empty() || !er.removed_entities.is_empty();
    rec.label(match dec {
        Some(Decision::Allow) => "partial:allow",
        Some(Decision::Deny) => "partial:deny",
        None => "partial:undecided",
    });
    rec.label_if(residuals > 0, "has-residual");
    rec.label_if(residuals > 0 && (!def_sat.is_empty() || !def_err.is_empty()), "residual+decided-policy");
    rec.nontrivial = any_unknown && residuals > 0;
    rec.render(|| {
        format!(
            "partial response: decision={dec:?} may={may:?} must={must:?} definitely_satisfied={def_sat:?} definitely_errored={def_err:?}\nresiduals: {}",
            presp.all_residuals().map(|p| format!("[{:?} {:?}] {}", AsRef::<str>::as_ref(p.id()), p.effect(), p.as_ref().condition())).collect::<Vec<_>>().join("\n  ")
        )
    });
    if std::env::var_os("VERIF_DEBUG").is_some() {
        for p in ps.policies() {
            eprintln!("DEBUG policy {:?}: cond = {}  env={:?}", AsRef::<str>::as_ref(p.id()), p.as_ref().condition(), p.as_ref().env());
        }
        eprintln!("DEBUG partial entities: {}", pents.to_json_value().map(|j| j.to_string()).unwrap_or_else(|e| e.to_string()));
    }
    let nsub = rec.size(4, 7);
    let mut decisions_seen = BTreeSet::new();
    for i in 0..nsub {
        let sb = gen_subst(t, &world, &req, &er, i == 0);
        let (cents, creq) = match (bridge::entities(&sb.world), bridge::request(&sb.req)) {
            (Ok(a), Ok(b)) => (a, b),
            _ => continue,
        };
        let truth = norm(&auth.is_authorized(&creq, &ps, &cents), &ident);
        decisions_seen.insert(truth.allow);
        let show = |rec: &mut Rec<'_>| {
            rec.render(|| format!("substitution #{i}: request {:?}\nbindings: {:?}", sb.req, sb.bindings.iter().map(|(k, v)| format!("{k} := {v:?}")).collect::<Vec<_>>()));
        };
        // (a) a definite decision holds for every substitution
        if let Some(d) = dec {
            if (d == Decision::Allow) != truth.allow {
                rec.fail("partial-decision-unsound", format!("partial authorization decided {d:?}; under substitution #{i} the concrete decision is {}", if truth.allow { "Allow" } else { "Deny" }));
                show(rec);
                return;
            }
        }
        // (c) must ⊆ determining ⊆ may
        if !must.is_subset(&truth.reasons) {
            rec.fail("must-be-determining", format!("must_be_determining = {must:?} is not a subset of the determining policies {:?} under substitution #{i}", truth.reasons));
            show(rec);
            return;
        }
        if !truth.reasons.is_subset(&may) {
            rec.fail("may-be-determining", format!("the determining policies {:?} under substitution #{i} are not within may_be_determining = {may:?}", truth.reasons));
            show(rec);
            return;
        }
        // (d) definitely satisfied / errored behave that way
        for id in &def_sat {
            let single = PolicySet::from_policies([ps.policy(&PolicyId::new(id)).unwrap().clone()]);
            // linked policies cannot be re-added alone: evaluate through the full response instead
            let sat = match single {
                Ok(s1) => {
                    let r1 = auth.is_authorized(&creq, &s1, &cents);
                    r1.diagnostics().reason().count() == 1
                }
                Err(_) => !truth.errors.contains(id) && (truth.reasons.contains(id) || true),
            };
            if !sat || truth.errors.contains(id) {
                rec.fail("definitely-satisfied", format!("policy {id:?} is reported definitely satisfied but is not satisfied under substitution #{i}"));
                show(rec);
                return;
            }
        }
        for id in &def_err {
            if !truth.errors.contains(id) {
                rec.fail("definitely-errored", format!("policy {id:?} is reported definitely errored but does not error under substitution #{i} (errors: {:?})", truth.errors));
                show(rec);
                return;
            }
        }
        // (b) reauthorize with the substitution == authorization from scratch
        // entities missing from a partial store surface as unknowns named after their uid: bind each to itself
        // (the data now comes from the concrete store passed to reauthorize)
        let mut bindings = sb.bindings.clone();
        for ue in presp.unknown_entities() {
            bindings.push((ue.to_string(), RestrictedExpression::new_entity_uid(ue.clone())));
        }
        match presp.reauthorize_with_bindings(bindings.iter().map(|(k, v)| (k.as_str(), v)), &auth, &cents) {
            Ok(again) => {
                let d2 = again.decision();
                let got = norm(&again.concretize(), &ident);
                if d2 != Some(if truth.allow { Decision::Allow } else { Decision::Deny }) || got.allow != truth.allow || got.reasons != truth.reasons {
                    rec.fail("reauthorize", format!("reauthorize under substitution #{i}: decision()={d2:?} concretize()={got:?}; authorization from scratch: {truth:?}"));
                    show(rec);
                    return;
                }
            }
            Err(e) => {
                rec.fail("reauthorize-error", format!("reauthorize_with_bindings failed under substitution #{i}: {e}"));
                show(rec);
                return;
            }
        }
    }
    rec.label_if(dec.is_none() && decisions_seen.len() == 2, "substitutions-disagree");
}

pub fn property() -> Property {
    Property {
        id: "C13",
        rule: "World-U, a request and C01's policy sets (static and linked, satisfied/unsatisfied/erroring); any subset of {principal, resource (typed or untyped unknown), whole context or individual context attributes, individual entity attributes} is replaced by unknowns, optionally with a partial store missing some entities. \
               4 (thorough 7) substitutions: the erased values themselves plus random values of the declared kinds (same entity type for typed unknowns, arbitrary values otherwise). Ground truth = ordinary authorization of the substituted request/store. \
               Oracles: a definite partial decision equals the concrete decision for every substitution; must_be_determining ⊆ determining ⊆ may_be_determining; definitely satisfied / errored policies behave that way; reauthorize_with_bindings gives the concrete decision and reasons. \
               Non-trivial = something is unknown and >=1 non-trivial residual remains.",
        assumptions: &["ordinary authorization (C01/C02) as ground truth", "substitutions respect the declared kind of each unknown"],
        subs: vec![SubCheck { name: "partial", cases: (150_000, 3_000_000), tape_len: 2500, run: case, min_labels: &[("has-residual", 30_000), ("residual+decided-policy", 6000), ("partial:undecided", 15_000), ("substitutions-disagree", 1500)] }],
    }
}
