//! C16 — level validation guarantees the level-n entity slice suffices.
//! C17 — entity-manifest slicing keeps everything authorization needs.

use crate::bridge;
use crate::engine::{Property, Rec, SubCheck};
use crate::gen::s::SchemaOpts;
use crate::props::c01::{norm, Norm};
use crate::props::scase::{self, AuthCase, AuthOpts};
use crate::refmodel::*;
use crate::tape::Tape;
use cedar_policy::{Authorizer, Entities, ValidationMode, Validator};
use std::collections::{BTreeMap, BTreeSet};

fn uids_in(v: &V, out: &mut BTreeSet<Uid>) {
    match v {
        V::Euid(u) => {
            out.insert(u.clone());
        }
        V::Set(xs) => xs.iter().for_each(|x| uids_in(x, out)),
        V::Rec(m) => m.values().for_each(|x| uids_in(x, out)),
        _ => {}
    }
}

/// The level-n slice (RFC 76): roots = principal, action, resource and every uid in the context (hop 0);
/// an entity is kept iff it has a record and is reachable in fewer than n hops through attribute and tag
/// values. Each kept entity keeps all attributes, tags and its full ancestor set.
pub fn level_slice(w: &World, req: &Req, n: usize) -> World {
    let mut frontier: BTreeSet<Uid> = [req.principal.clone(), req.action.clone(), req.resource.clone()].into_iter().collect();
    uids_in(&V::Rec(req.context.clone()), &mut frontier);
    let mut kept: BTreeMap<Uid, EntityData> = BTreeMap::new();
    for _hop in 0..n {
        let mut next = BTreeSet::new();
        for u in &frontier {
            if kept.contains_key(u) {
                continue;
            }
            if let Some(d) = w.entities.get(u) {
                let mut d2 = d.clone();
                d2.parents = w.ancestors(u);
                d.attrs.values().chain(d.tags.values()).for_each(|v| uids_in(v, &mut next));
                kept.insert(u.clone(), d2);
            }
        }
        frontier = next;
    }
    World { entities: kept }
}

fn opts(rec: &Rec<'_>) -> AuthOpts {
    AuthOpts { closed_16: 0, schema: SchemaOpts { chains: true, ..SchemaOpts::default() }, max_policies: rec.size(3, 5), depth: rec.size(2, 3), path_budget: 4, traps: false }
}

fn gen(t: &mut Tape, rec: &mut Rec<'_>) -> Option<AuthCase> {
    gen_with(t, rec, true)
}

fn gen_with(t: &mut Tape, rec: &mut Rec<'_>, tags: bool) -> Option<AuthCase> {
    crate::gen::s::LEVEL_FRIENDLY.with(|c| c.set(true));
    crate::gen::s::DENSE_WORLD.with(|c| c.set(true));
    let mut o = opts(rec);
    o.schema.allow_tags = tags;
    let r = scase::gen_auth_case(t, &o);
    crate::gen::s::LEVEL_FRIENDLY.with(|c| c.set(false));
    crate::gen::s::DENSE_WORLD.with(|c| c.set(false));
    match r {
        Ok(c) => Some(c),
        Err(e) => {
            let reason = e.split(':').next().unwrap_or("discard").to_string();
            rec.render(|| e.clone());
            rec.discard(reason);
            None
        }
    }
}

fn full_world(c: &AuthCase) -> World {
    // the store as the library holds it: generated entities plus the schema's action entities
    let mut w = c.world.clone();
    for (u, d) in crate::gen::s::action_entities(&c.rs).entities {
        w.entities.insert(u, d);
    }
    w
}

fn level_case(t: &mut Tape, rec: &mut Rec<'_>) {
    crate::gen::s::COMPOUND_DEPTHS_DIFFER.with(|c| c.set(false));
    let Some(c) = gen(t, rec) else { return };
    rec.label_if(crate::gen::s::COMPOUND_DEPTHS_DIFFER.with(|c| c.get()), "deref-of-if-with-branches-of-different-depth");
    let validator = Validator::new(c.schema.clone());
    let auth = Authorizer::new();
    let ident = |s: &str| s.to_string();
    let full: Norm = norm(&auth.is_authorized(&c.creq, &c.pset, &c.ents), &ident);
    let w_full = full_world(&c);
    rec.set_key(&c.render());
    rec.render(|| c.render());
    let mut accepted_before = false;
    let mut min_level = None;
    for n in 0..=4usize {
        let ok = validator.validate_with_level(&c.pset, ValidationMode::Strict, n as u32).validation_passed();
        if accepted_before && !ok {
            rec.fail("level-monotonicity", format!("accepted at level {} but rejected at level {n}\n{}", n - 1, c.render()));
            return;
        }
        if ok && min_level.is_none() {
            min_level = Some(n);
        }
        accepted_before |= ok;
        if !ok {
            continue;
        }
        let slice = level_slice(&w_full, &c.req, n);
        let proper = slice.entities.len() < w_full.entities.len();
        let sl_ents = match bridge::entities(&slice) {
            Ok(e) => e,
            Err(e) => {
                rec.fail("harness-slice", e);
                return;
            }
        };
        let r = norm(&auth.is_authorized(&c.creq, &c.pset, &sl_ents), &ident);
        if Some(n) == min_level {
            rec.label(format!("min-level:{n}"));
            rec.label_if(proper, "proper-slice-at-min-level");
            if proper && n >= 1 {
                rec.nontrivial = true;
            }
        }
        if r != full {
            rec.fail(
                format!("level-slice-insufficient:{}", if r.allow != full.allow { "decision" } else if r.reasons != full.reasons { "reasons" } else { "errors" }),
                format!("the policy set passes level validation at n={n}, but authorization over the level-{n} slice gives {r:?} while the full store gives {full:?}\nslice keeps: {:?}\n{}", slice.entities.keys().map(|u| format!("{}::{:?}", u.ty, u.id)).collect::<Vec<_>>(), c.render()),
            );
            return;
        }
    }
    rec.label_if(min_level.is_none(), "needs-level>4");
    rec.label_if(c.uses_tags, "uses-tags");
}

fn manifest_case(t: &mut Tape, rec: &mut Rec<'_>) {
    crate::gen::s::NESTED_IN_TARGETS.with(|c| c.set(false));
    // manifests are refused for policies over entity tags (documented): keep that path alive but spend few cases on it
    let tags = t.bool_p(1, 8);
    let Some(c) = gen_with(t, rec, tags) else { return };
    rec.label_if(crate::gen::s::NESTED_IN_TARGETS.with(|c| c.get()), "in-path-and-in-its-extension");
    let validator = Validator::new(c.schema.clone());
    let auth = Authorizer::new();
    let ident = |s: &str| s.to_string();
    rec.set_key(&c.render());
    rec.render(|| c.render());
    #[allow(deprecated)]
    let manifest = match cedar_policy::compute_entity_manifest(&validator, &c.pset) {
        Ok(m) => m,
        Err(e) => {
            // manifests are refused for some language features (documented): not a slice, nothing to check
            let msg = e.to_string();
            let kind = if msg.contains("tag") { "manifest-skip:tags" } else if msg.contains("nsupported") { "manifest-skip:unsupported" } else { "manifest-skip:other" };
            rec.label(kind);
            rec.render(|| format!("manifest error: {msg}"));
            if kind == "manifest-skip:other" {
                rec.fail("manifest-error", format!("compute_entity_manifest failed on a strictly valid policy set: {msg}\n{}", c.render()));
            }
            return;
        }
    };
    rec.label("manifest-ok");
    let full: Norm = norm(&auth.is_authorized(&c.creq, &c.pset, &c.ents), &ident);
    let sliced_core = match manifest.slice_entities(c.ents.as_ref(), c.creq.as_ref()) {
        Ok(s) => s,
        Err(e) => {
            rec.fail("manifest-slice-error", format!("slice_entities failed: {e}\n{}", c.render()));
            return;
        }
    };
    let sliced: Entities = sliced_core.into();
    let proper = sliced.len() < c.ents.len();
    rec.label_if(proper, "proper-slice");
    rec.label_if(c.uses_optional, "has-guards");
    rec.nontrivial = proper && c.max_derefs >= 1;
    let r = norm(&auth.is_authorized(&c.creq, &c.pset, &sliced), &ident);
    if r != full {
        let tags = c.uses_tags;
        // policies whose erroring status differs
        let a: BTreeSet<&String> = r.errors.iter().collect();
        let b: BTreeSet<&String> = full.errors.iter().collect();
        let differing: Vec<&String> = a.symmetric_difference(&b).copied().collect();
        let only_errors = r.allow == full.allow && r.reasons == full.reasons;
        let all_irrelevant = only_errors && !differing.is_empty() && differing.iter().all(|id| is_irrelevant(&c, id));
        let sig = if all_irrelevant {
            // the manifest requests no data for a policy the typechecker proves always-false in an environment;
            // on the slice such a policy can error where it evaluated to false on the full store
            "irrelevant-policy-errors-on-slice".to_string()
        } else if tags {
            "tags-dropped-by-slice".to_string()
        } else {
            format!("manifest-slice-insufficient:{}", if r.allow != full.allow { "decision" } else if r.reasons != full.reasons { "reasons" } else { "errors" })
        };
        rec.fail(
            sig,
            format!("authorization over the manifest slice gives {r:?}, over the full store {full:?}\nslice: {}\n{}", sliced.to_json_value().map(|j| j.to_string()).unwrap_or_default(), c.render()),
        );
    }
}

/// Is the policy `Irrelevant` (always false) for the request's environment according to the typechecker?
fn is_irrelevant(c: &AuthCase, id: &str) -> bool {
    use cedar_policy_core::validator::typecheck::{PolicyCheck, Typechecker};
    let Some(p) = c.pset.policy(&cedar_policy::PolicyId::new(id)) else { return false };
    let tc = Typechecker::new(c.schema.as_ref(), cedar_policy_core::validator::ValidationMode::Strict);
    for (env, check) in tc.typecheck_by_request_env(p.as_ref().template()) {
        let same = env.principal_entity_type().map(|x| x.to_string()) == Some(c.req.principal.ty.clone())
            && env.resource_entity_type().map(|x| x.to_string()) == Some(c.req.resource.ty.clone())
            && env.action_entity_uid().map(bridge::uid_of_core) == Some(c.req.action.clone());
        if same {
            return matches!(check, PolicyCheck::Irrelevant(..));
        }
    }
    false
}

pub fn property_c16() -> Property {
    Property {
        id: "C16",
        rule: "Schema-G biased to entity-typed attributes, tags and context fields (chains and cycles), 1..3 (thorough 1..5) strictly valid Policy-T policies with access paths up to 4 levels deep, attribute access on if-then-else of entities with branches of different depth and on projected record literals with sibling fields, `in` against access paths, no dereference of entity literals (incl. `if` producing entities, tags, record literals projected right away), \
               World-S store and request. For n in 0..4: if validate_with_level(n) passes, authorization over the level-n slice computed by the harness (entities with a record reachable from principal/action/resource/context uids in fewer than n attribute/tag hops, each kept with attributes, tags and full ancestor set) \
               must give the same decision, reasons and error ids as the full store; acceptance is monotone in n. Non-trivial = the minimal accepted level is >=1 and its slice is a proper subset of the store.",
        assumptions: &["harness level slicer (from RFC 76: the smallest store the guarantee speaks about)", "World-S conformance"],
        subs: vec![SubCheck { name: "level", cases: (200_000, 4_000_000), tape_len: 4000, run: level_case, min_labels: &[("min-level:1", 40_000), ("min-level:2", 15_000), ("min-level:3", 5000), ("proper-slice-at-min-level", 80_000), ("deref-of-if-with-branches-of-different-depth", 3000)] }],
    }
}

pub fn property_c17() -> Property {
    Property {
        id: "C17",
        rule: "same generator as C16 (strict validation only; 1/8 of the schemas with tags; membership tests of one subject against an access path and an extension of it; dense stores). compute_entity_manifest, then core EntityManifest::slice_entities(store, request); authorization over the sliced store must give the same decision, reasons and error ids as over the full store. \
               Manifest computation refusing a policy (entity tags and other documented unsupported features) is a counted skip. Non-trivial = the slice is a proper subset of the store and some policy dereferences an entity.",
        assumptions: &["World-S conformance", "manifest computation errors for documented unsupported features are skips"],
        subs: vec![SubCheck { name: "manifest", cases: (300_000, 6_000_000), tape_len: 4000, run: manifest_case, min_labels: &[("manifest-ok", 180_000), ("proper-slice", 120_000), ("has-guards", 60_000), ("in-path-and-in-its-extension", 6000), ("manifest-skip:tags", 1500)] }],
    }
}
