pub mod c01;
pub mod c02;
pub mod c03;
pub mod c04;
pub mod c05;
pub mod c06;
pub mod c07;
pub mod c08;
pub mod c09;
pub mod c10;
pub mod c11;
pub mod c12;
pub mod c13;
pub mod c14;
pub mod c15;
pub mod c16;
pub mod c18;
pub mod c19;
pub mod c20;
pub mod scase;

use crate::engine::Property;

pub fn all() -> Vec<Property> {
    vec![c01::property(), c02::property(), c03::property(), c04::property(), c05::property(), c06::property(), c07::property(), c08::property(), c09::property(), c10::property(), c11::property(), c12::property(), c13::property(), c14::property(), c15::property(), c16::property_c16(), c16::property_c17(), c18::property(), c19::property(), c20::property()]
}

/// Non-tape engines attached to a property: coverage-guided libFuzzer campaigns (thorough tier only).
/// The tape target reuses the property's own generators and oracles (libFuzzer mutates choices); the text
/// target feeds raw bytes to the parsers with the C05 / C12 / C20 oracles inside.
pub fn extra(id: &str, tier: crate::engine::Tier, seed: u64) -> Option<crate::engine::Extra> {
    use crate::engine::{Extra, Tier};
    if tier != Tier::Thorough || std::env::var_os("VERIF_NO_FUZZ").is_some() {
        return None;
    }
    let subs: Vec<(&str, usize)> = match id {
        "C02" => vec![("eval", 900)],
        "C05" => vec![("single", 700)],
        "C12" => vec![("format", 3000)],
        "C20" => vec![("policy-text", 1200), ("schema", 2500), ("json", 2500), ("protobuf", 1200)],
        _ => return None,
    };
    let runs: u64 = std::env::var("VERIF_FUZZ_RUNS").ok().and_then(|s| s.parse().ok()).unwrap_or(150_000);
    let mut extra = Extra::default();
    let mut report = Vec::new();
    let fuzz_dir = format!("{}/harness/fuzz", crate::engine::VERIF_DIR);
    let mut campaigns: Vec<(String, String, usize)> = subs.iter().map(|(s, len)| ("tape".to_string(), format!("{id}:{s}"), *len * 4)).collect();
    if ["C05", "C12", "C20"].contains(&id) {
        campaigns.push(("text".to_string(), format!("{id}:text"), 600));
    }
    for (target, spec, max_len) in campaigns {
        let corpus = format!("{fuzz_dir}/corpus-run/{}-{}", target, spec.replace(':', "-"));
        let _ = std::fs::remove_dir_all(&corpus);
        let _ = std::fs::create_dir_all(&corpus);
        // seed corpus: full-length pseudo-random tapes (the empty corpus ramps length slowly), resp. small valid texts
        let mut x = seed ^ 0x9E3779B97F4A7C15;
        let mut next = || {
            x ^= x << 13;
            x ^= x >> 7;
            x ^= x << 17;
            x
        };
        if target == "tape" {
            for i in 0..48 {
                let bytes: Vec<u8> = (0..max_len).map(|_| (next() >> 24) as u8).collect();
                let _ = std::fs::write(format!("{corpus}/seed{i}"), bytes);
            }
        } else {
            let seeds = [
                "permit(principal, action, resource);",
                "@id(\"x\")\nforbid(principal == A::\"a\", action in [Action::\"v\"], resource is B in B::\"b\") when { principal.n > -1 && !(context has a.b) } unless { resource like \"a*\\*\" };",
                "permit(principal in ?principal, action, resource == ?resource) when { if true then [1, {a: ip(\"1.1.1.1/8\")}].contains(2) else principal.getTag(\"k\") == \"\\u{1F600}\" }; // c\n",
            ];
            for (i, s0) in seeds.iter().enumerate() {
                let _ = std::fs::write(format!("{corpus}/seed{i}"), s0);
            }
        }
        let artifacts = format!("{fuzz_dir}/artifacts/{target}/");
        let _ = std::fs::remove_dir_all(&artifacts);
        let spec_env = if target == "tape" { spec.clone() } else { "C20:policy-text".to_string() };
        let out = std::process::Command::new("cargo")
            .current_dir(format!("{}/harness", crate::engine::VERIF_DIR))
            .env("VERIF_FUZZ_TARGET", &spec_env)
            .env("CARGO_NET_OFFLINE", "true")
            .args(["+nightly", "fuzz", "run", &target, &corpus, "--", &format!("-runs={runs}"), &format!("-seed={}", (seed % 4_000_000_000) + 1), &format!("-max_len={max_len}"), "-len_control=0", "-max_total_time=1500", "-timeout=120", "-rss_limit_mb=6000"])
            .output();
        let Ok(out) = out else {
            extra.inconclusive = Some("cargo fuzz could not be started".into());
            continue;
        };
        let log = String::from_utf8_lossy(&out.stderr).to_string();
        let done = log.lines().rev().find(|l| l.contains("Done ") && l.contains(" runs")).map(|l| l.trim().to_string());
        let stats = log.lines().rev().find(|l| l.contains(" cov: ") && l.contains(" ft: ")).map(|l| l.trim().to_string());
        let n_done: u64 = done.as_ref().and_then(|l| l.split_whitespace().nth(1)).and_then(|x| x.parse().ok()).unwrap_or(0);
        extra.evals += n_done;
        let corpus_size = std::fs::read_dir(&corpus).map(|d| d.count()).unwrap_or(0);
        report.push(serde_json::json!({"target": target, "spec": spec, "runs_requested": runs, "runs_done": n_done, "last_stats": stats, "corpus_files": corpus_size, "exit_ok": out.status.success()}));
        eprintln!("[{id}] libFuzzer {target} {spec}: {} {}", done.clone().unwrap_or_default(), stats.clone().unwrap_or_default());
        if !out.status.success() {
            // crash artifact -> replay file
            let art = std::fs::read_dir(&artifacts).ok().and_then(|mut d| d.find_map(|e| e.ok()).map(|e| e.path()));
            let sig_line = log.lines().find(|l| l.contains("VERIF-FUZZ-VIOLATION")).unwrap_or("").to_string();
            match art {
                Some(path) => {
                    let bytes = std::fs::read(&path).unwrap_or_default();
                    let replay = format!("{}/replays/{}-fuzz-{}.json", crate::engine::out_dir(), id, path.file_name().and_then(|n| n.to_str()).unwrap_or("artifact"));
                    let _ = std::fs::create_dir_all(format!("{}/replays", crate::engine::out_dir()));
                    let doc = if target == "tape" {
                        let words: Vec<u32> = crate::tape::Tape::from_bytes(&bytes).words().to_vec();
                        serde_json::json!({"property": id, "sub": spec.split(':').nth(1), "tier": "thorough", "seed": seed, "signature": sig_line, "tape": words, "source": "libFuzzer"})
                    } else {
                        serde_json::json!({"property": id, "sub": "text", "tier": "thorough", "seed": seed, "signature": sig_line, "text": String::from_utf8_lossy(&bytes), "source": "libFuzzer"})
                    };
                    let _ = std::fs::write(&replay, serde_json::to_string_pretty(&doc).unwrap_or_default());
                    // a libFuzzer timeout / OOM is inconclusive, a VERIF-FUZZ-VIOLATION or a crash is a violation
                    if sig_line.is_empty() && (log.contains("ERROR: libFuzzer: timeout") || log.contains("out-of-memory")) {
                        extra.inconclusive = Some(format!("libFuzzer {target} {spec}: timeout/oom, artifact {}", path.display()));
                    } else {
                        eprintln!("{sig_line}");
                        extra.violation = Some(replay);
                    }
                }
                None => extra.inconclusive = Some(format!("libFuzzer {target} {spec} exited with an error but left no artifact: {}", log.lines().rev().take(5).collect::<Vec<_>>().join(" | "))),
            }
        }
        let _ = std::fs::remove_dir_all(&corpus);
    }
    extra.json.insert("fuzz".into(), serde_json::Value::Array(report));
    Some(extra)
}

/// Oracles for the byte-level libFuzzer target: anything the parser accepts must round-trip through the printer
/// (C05), be formatted without loss (C12), and nothing may panic (C20; panics are caught by the caller).
/// Returns Some((signature, message)) on a violation.
pub fn fuzz_text_oracles(s: &str) -> Option<(String, String)> {
    use cedar_policy_core::parser;
    let Ok(set) = parser::parse_policyset(s) else { return None };
    // C05: print every template with the AST printer, re-parse, compare
    for t in set.all_templates() {
        let printed = t.to_string();
        match parser::parse_policy_or_template(Some(t.id().clone()), &printed) {
            Ok(t2) => {
                if let Err(e) = crate::bridge::templates_equal(t, &t2) {
                    return Some(("C05:roundtrip-structure".into(), format!("{e}\ninput: {s:?}\nprinted: {printed}")));
                }
            }
            Err(e) => return Some(("C05:printed-text-rejected".into(), format!("{e}\ninput: {s:?}\nprinted: {printed}"))),
        }
    }
    // C12: formatter keeps policies and comments (known trailing-comma findings excluded: skipped when a comma precedes a closer)
    let cfg = cedar_policy_formatter::Config::default();
    match cedar_policy_formatter::policies_str_to_pretty(s, &cfg) {
        Ok(out) => {
            let ic = c12::comments_of(s);
            let oc = c12::comments_of(&out);
            let toks = c12::tokenize(s);
            let trailing_comma = toks.windows(2).any(|w| matches!((&w[0], &w[1]), (c12::Tok::Punct(a), c12::Tok::Punct(b)) if a == "," && ["}", "]", ")"].contains(&b.as_str())))
                || toks.windows(3).any(|w| matches!((&w[0], &w[1], &w[2]), (c12::Tok::Punct(a), c12::Tok::Comment(_), _) if a == ",") || matches!((&w[0], &w[1], &w[2]), (_, c12::Tok::Comment(_), c12::Tok::Punct(b)) if b == ","));
            if ic != oc && !trailing_comma {
                return Some(("C12:comments".into(), format!("input comments {ic:?} output comments {oc:?}\ninput: {s:?}\noutput: {out}")));
            }
            match parser::parse_policyset(&out) {
                Ok(set2) => {
                    if set2.all_templates().count() != set.all_templates().count() {
                        return Some(("C12:policy-count".into(), format!("input: {s:?}\noutput: {out}")));
                    }
                }
                Err(e) => return Some(("C12:format-output-unparseable".into(), format!("{e}\ninput: {s:?}\noutput: {out}"))),
            }
        }
        Err(e) => return Some(("C12:format-failed".into(), format!("{e:?}\ninput: {s:?}"))),
    }
    None
}
