pub mod c01;
pub mod c02;
pub mod c03;
pub mod c04;
pub mod c05;
pub mod c06;
pub mod c07;
pub mod c08;
pub mod c09;
pub mod c10;
pub mod c11;
pub mod c12;
pub mod c13;
pub mod c14;
pub mod c15;
pub mod c16;
pub mod c18;
pub mod c19;
pub mod c20;
pub mod scase;

use crate::engine::Property;

pub fn all() -> Vec<Property> {
    vec![c01::property(), c02::property(), c03::property(), c04::property(), c05::property(), c06::property(), c07::property(), c08::property(), c09::property(), c10::property(), c11::property(), c12::property(), c13::property(), c14::property(), c15::property(), c16::property_c16(), c16::property_c17(), c18::property(), c19::property(), c20::property()]
}

/// Non-tape engines (libFuzzer campaigns, subprocess sweeps) attached to a property.
pub fn extra(_id: &str, _tier: crate::engine::Tier, _seed: u64) -> Option<crate::engine::Extra> {
    None
}
