//! C01 — authorization: default-deny, forbid-overrides, skip-on-error, pure function of its inputs.

use crate::bridge;
use crate::emit::{policy as pemit, text};
use crate::engine::{Property, Rec, SubCheck};
use crate::gen::u;
use crate::refmodel::policy::RPolicy;
use crate::refmodel::{self as rm, Outcome, Uid};
use crate::tape::Tape;
use cedar_policy::{
    AuthorizationError, Authorizer, Decision, Entities, EntityUid, Policy, PolicyId, PolicySet, Response, SlotId, Template,
};
use std::collections::{BTreeMap, BTreeSet, HashMap};
use std::str::FromStr;

pub const ID_POOL: [&str; 18] = [
    "", "policy0", "policy1", "policy2", "a b", "\u{1F600}", "p", "pp", "P", "x\"y", "policy", "0", "policy00", "\\", "p\n", "ppp", "policy10", "é",
];

#[derive(Clone, Debug)]
pub struct GP {
    pub id: String,
    /// the policy as written (template when linked)
    pub src: RPolicy,
    /// Some((template id, principal binding, resource binding)) when linked
    pub link: Option<(String, Option<Uid>, Option<Uid>)>,
    /// what the policy means (template with slots substituted)
    pub meaning: RPolicy,
    pub outcome: Outcome,
}

/// Normalised response: decision, reason set, error ids (sorted multiset)
#[derive(Clone, Debug, PartialEq, Eq)]
pub struct Norm {
    pub allow: bool,
    pub reasons: BTreeSet<String>,
    pub errors: Vec<String>,
}

pub fn norm(r: &Response, rename: &dyn Fn(&str) -> String) -> Norm {
    let mut errors: Vec<String> = r
        .diagnostics()
        .errors()
        .map(|e| match e {
            AuthorizationError::PolicyEvaluationError(e) => rename(e.policy_id().as_ref()),
        })
        .collect();
    errors.sort();
    Norm { allow: r.decision() == Decision::Allow, reasons: r.diagnostics().reason().map(|i| rename(i.as_ref())).collect(), errors }
}

pub fn gen_policies(t: &mut Tape, n: usize, cx: &rm::Ctx<'_>, cond_depth: usize) -> Vec<GP> {
    let mut ids: Vec<&str> = ID_POOL.to_vec();
    let mut out = Vec::new();
    for i in 0..n {
        let want = match t.weighted(&[3, 2, 2]) {
            0 => Outcome::Sat,
            1 => Outcome::Unsat,
            _ => Outcome::Err,
        };
        let linked = t.bool_p(1, 4);
        let mut best: Option<GP> = None;
        for _try in 0..6 {
            let slots = if linked { 1 + t.upto(3) as u8 } else { 0 };
            let mut src = u::gen_policy(t, slots, cond_depth);
            if want != Outcome::Unsat && t.bool_p(2, 3) {
                // a wide scope, so that the outcome is decided by the conditions
                if slots & 1 == 0 {
                    src.principal = rm::policy::PrC::Any;
                }
                if slots & 2 == 0 {
                    src.resource = rm::policy::PrC::Any;
                }
                src.action = rm::policy::ActC::Any;
            }
            let pb = if slots & 1 != 0 { Some(if t.bool_p(1, 2) { cx.req.principal.clone() } else { u::gen_uid(t) }) } else { None };
            let rb = if slots & 2 != 0 { Some(if t.bool_p(1, 2) { cx.req.resource.clone() } else { u::gen_uid(t) }) } else { None };
            let meaning = src.link(pb.as_ref(), rb.as_ref());
            let (outcome, _) = meaning.outcome(cx);
            let gp = GP { id: String::new(), src, link: if linked { Some((format!("t{i}"), pb, rb)) } else { None }, meaning, outcome };
            let hit = outcome == want;
            best = Some(gp);
            if hit {
                break;
            }
        }
        let mut gp = best.unwrap();
        let k = t.upto(ids.len());
        gp.id = ids.remove(k).to_string();
        out.push(gp);
    }
    out
}

pub fn add_policy(ps: &mut PolicySet, gp: &GP, id: &str) -> Result<(), String> {
    let c = &mut text::Style::canonical();
    let txt = pemit::policy_text(&gp.src, c);
    match &gp.link {
        None => {
            let p = Policy::parse(Some(PolicyId::new(id)), &txt).map_err(|e| format!("parse `{txt}`: {e}"))?;
            ps.add(p).map_err(|e| format!("add: {e}"))
        }
        Some((tid, pb, rb)) => {
            let tid = format!("{tid}/{id}"); // one private template per link keeps ids disjoint
            let tp = Template::parse(Some(PolicyId::new(&tid)), &txt).map_err(|e| format!("parse template `{txt}`: {e}"))?;
            ps.add_template(tp).map_err(|e| format!("add_template: {e}"))?;
            let mut vals: HashMap<SlotId, EntityUid> = HashMap::new();
            if let Some(u) = pb {
                vals.insert(SlotId::principal(), bridge::euid(u));
            }
            if let Some(u) = rb {
                vals.insert(SlotId::resource(), bridge::euid(u));
            }
            ps.link(PolicyId::new(&tid), PolicyId::new(id), vals).map_err(|e| format!("link: {e}"))
        }
    }
}

pub fn build_set(gps: &[GP], order: &[usize], rename: &dyn Fn(&str) -> String) -> Result<PolicySet, String> {
    let mut ps = PolicySet::new();
    for i in order {
        add_policy(&mut ps, &gps[*i], &rename(&gps[*i].id))?;
    }
    Ok(ps)
}

fn case(t: &mut Tape, rec: &mut Rec<'_>) {
    let world = u::gen_world(t);
    let req = u::gen_req(t);
    let (ents, creq) = match (bridge::entities(&world), bridge::request(&req)) {
        (Ok(e), Ok(r)) => (e, r),
        _ => {
            rec.discard("world-rejected");
            return;
        }
    };
    let cx = rm::Ctx { req: &req, world: &world };
    let maxn = rec.size(8, 16);
    let n = t.upto(maxn + 1);
    let gps = gen_policies(t, n, &cx, 3);
    let ident = |s: &str| s.to_string();
    let order: Vec<usize> = (0..n).collect();
    let render = |rec: &mut Rec<'_>| {
        rec.render(|| {
            let c = &mut text::Style::canonical();
            let mut s = String::new();
            for g in &gps {
                s.push_str(&format!("// id={:?} expected outcome={:?} link={:?}\n{}\n", g.id, g.outcome, g.link, pemit::policy_text(&g.src, c)));
            }
            s.push_str(&format!("request: {req:?}\nentities: {}", ents.to_json_value().map(|j| j.to_string()).unwrap_or_default()));
            s
        })
    };
    let ps = match build_set(&gps, &order, &ident) {
        Ok(ps) => ps,
        Err(e) => {
            rec.fail("policy-set-construction", format!("could not build the generated policy set: {e}"));
            render(rec);
            return;
        }
    };
    // classification
    let mut classes: BTreeSet<(bool, Outcome)> = BTreeSet::new();
    for g in &gps {
        classes.insert((g.meaning.permit, g.outcome));
        rec.label(match (g.meaning.permit, g.outcome) {
            (true, Outcome::Sat) => "permit-sat",
            (true, Outcome::Unsat) => "permit-unsat",
            (true, Outcome::Err) => "permit-err",
            (false, Outcome::Sat) => "forbid-sat",
            (false, Outcome::Unsat) => "forbid-unsat",
            (false, Outcome::Err) => "forbid-err",
        });
        rec.label_if(g.link.is_some(), "linked");
    }
    rec.label_if(classes.contains(&(false, Outcome::Err)) && classes.contains(&(true, Outcome::Sat)), "err-forbid+sat-permit");
    rec.label_if(classes.contains(&(false, Outcome::Sat)) && classes.contains(&(true, Outcome::Sat)), "sat-forbid+sat-permit");
    rec.label_if(!gps.is_empty() && gps.iter().all(|g| g.outcome == Outcome::Err), "only-err");
    rec.label_if(gps.is_empty(), "empty-set");
    rec.nontrivial = n >= 2 && classes.len() >= 2;
    rec.set_key(&format!("{gps:?}{req:?}"));

    // Oracle A: reference authorizer over the outcome vector
    let want = rm::authorize(gps.iter().map(|g| (g.id.as_str(), g.meaning.permit, g.outcome)));
    let want = Norm { allow: want.allow, reasons: want.reasons, errors: want.errors.into_iter().collect() };
    let auth = Authorizer::new();
    let base = norm(&auth.is_authorized(&creq, &ps, &ents), &ident);
    if base != want {
        let sig = if base.allow != want.allow {
            "decision"
        } else if base.reasons != want.reasons {
            "reasons"
        } else {
            "errors"
        };
        rec.fail(format!("authz:{sig}"), format!("response {base:?}\nreference {want:?}"));
        render(rec);
        return;
    }

    // Oracle B: purity / metamorphic invariance
    // (1) permutations of insertion order
    for k in 0..2 {
        let perm = t.permutation(n);
        match build_set(&gps, &perm, &ident) {
            Ok(ps2) => {
                let r = norm(&auth.is_authorized(&creq, &ps2, &ents), &ident);
                if r != base {
                    rec.fail("purity:policy-order", format!("insertion order {perm:?} (try {k}) gives {r:?}, original order gives {base:?}"));
                    render(rec);
                    return;
                }
            }
            Err(e) => {
                rec.fail("policy-set-construction", e);
                return;
            }
        }
    }
    // (2) bijective id respelling
    {
        let fwd: BTreeMap<String, String> = gps.iter().enumerate().map(|(i, g)| (g.id.clone(), format!("r{}", (i * 7 + 3) % 97))).collect();
        let back: BTreeMap<String, String> = fwd.iter().map(|(a, b)| (b.clone(), a.clone())).collect();
        let rn = |s: &str| fwd.get(s).cloned().unwrap_or_else(|| s.to_string());
        let un = |s: &str| back.get(s).cloned().unwrap_or_else(|| format!("<unknown id {s}>"));
        match build_set(&gps, &order, &rn) {
            Ok(ps2) => {
                let r = norm(&auth.is_authorized(&creq, &ps2, &ents), &un);
                if r != base {
                    rec.fail("purity:id-spelling", format!("after renaming ids bijectively the response maps back to {r:?}, original {base:?}"));
                    render(rec);
                    return;
                }
            }
            Err(e) => {
                rec.fail("policy-set-construction", e);
                return;
            }
        }
    }
    // (3) one concatenated text (static policies only): ids become policyN by position
    if gps.iter().all(|g| g.link.is_none()) && n > 0 {
        let perm = t.permutation(n);
        let c = &mut text::Style::canonical();
        let txt: String = perm.iter().map(|i| pemit::policy_text(&gps[*i].src, c)).collect::<Vec<_>>().join("\n");
        match PolicySet::from_str(&txt) {
            Ok(ps2) => {
                let un = |s: &str| s.strip_prefix("policy").and_then(|k| k.parse::<usize>().ok()).and_then(|k| perm.get(k)).map(|i| gps[*i].id.clone()).unwrap_or_else(|| format!("<unknown id {s}>"));
                let r = norm(&auth.is_authorized(&creq, &ps2, &ents), &un);
                if r != base {
                    rec.fail("purity:text-set", format!("the same policies parsed from one text (order {perm:?}) give {r:?}, original {base:?}"));
                    render(rec);
                    return;
                }
            }
            Err(e) => {
                rec.fail("generated-text-rejected", format!("{txt}\n{e}"));
                return;
            }
        }
    }
    // (4) entity insertion order and chunking
    let evec = match bridge::entities_vec(&world) {
        Ok(v) => v,
        Err(_) => return,
    };
    for k in 0..2 {
        let perm = t.permutation(evec.len());
        let permuted: Vec<_> = perm.iter().map(|i| evec[*i].clone()).collect();
        let cut = t.upto(permuted.len() + 1);
        let built = if k == 0 {
            Entities::from_entities(permuted.clone(), None)
        } else {
            Entities::from_entities(permuted[..cut].to_vec(), None).and_then(|e| e.add_entities(permuted[cut..].to_vec(), None))
        };
        match built {
            Ok(e2) => {
                let r = norm(&auth.is_authorized(&creq, &ps, &e2), &ident);
                if r != base {
                    rec.fail("purity:entity-order", format!("entity insertion order {perm:?} cut {cut} (mode {k}) gives {r:?}, original {base:?}"));
                    render(rec);
                    return;
                }
            }
            Err(e) => {
                rec.fail("entities-construction", format!("mode {k}: {e}"));
                render(rec);
                return;
            }
        }
    }
    // (5) repetition with freshly constructed inputs (fresh hash states)
    for _ in 0..2 {
        let (e2, r2, p2) = (bridge::entities(&world).unwrap(), bridge::request(&req).unwrap(), build_set(&gps, &order, &ident).unwrap());
        let r = norm(&Authorizer::new().is_authorized(&r2, &p2, &e2), &ident);
        if r != base {
            rec.fail("purity:repetition", format!("a repetition on freshly built equal inputs gives {r:?}, first call {base:?}"));
            render(rec);
            return;
        }
    }
    // (6) the same Authorizer after unrelated calls
    {
        let a2 = Authorizer::new();
        let k = 1 + t.upto(3);
        for _ in 0..k {
            let other = u::gen_req(t);
            if let Ok(o) = bridge::request(&other) {
                let _ = a2.is_authorized(&o, &ps, &ents);
            }
        }
        let r = norm(&a2.is_authorized(&creq, &ps, &ents), &ident);
        if r != base {
            rec.fail("purity:earlier-calls", format!("after {k} unrelated calls on the same Authorizer: {r:?}, fresh: {base:?}"));
            render(rec);
            return;
        }
    }
    // (7) partial-authorization entry point on a concrete request concretises to the same response
    {
        let pr = auth.is_authorized_partial(&creq, &ps, &ents);
        let dec = pr.decision();
        let r = norm(&pr.concretize(), &ident);
        if r != base || dec != Some(if base.allow { Decision::Allow } else { Decision::Deny }) {
            rec.fail("purity:partial-entry", format!("is_authorized_partial on the concrete request: decision()={dec:?} concretize()={r:?}, is_authorized: {base:?}"));
            render(rec);
            return;
        }
    }
    render(rec);
}

pub fn property() -> Property {
    Property {
        id: "C01",
        rule: "World-U x request x n in 0..8 (thorough 0..16) policies, each generated towards an intended outcome (satisfied / unsatisfied / erroring, re-checked by the reference \
               interpreter), permit or forbid, static or template-linked (1/4), ids from a pool of 18 odd spellings. Oracle A: reference authorizer over the outcome vector \
               (decision, reason set, error-id multiset). Oracle B: identical response under 2 insertion orders, a bijective id respelling, one concatenated text, 2 entity \
               orders/chunkings, 2 fresh rebuilds, earlier unrelated calls, and the partial-authorization entry point. Non-trivial = >=2 policies with >=2 distinct (effect,outcome) classes.",
        assumptions: &["reference interpreter (C02) decides each policy's outcome; reference authorizer = 15 lines"],
        subs: vec![SubCheck {
            name: "authz",
            cases: (100_000, 2_000_000),
            tape_len: 1500,
            run: case,
            min_labels: &[("err-forbid+sat-permit", 300), ("sat-forbid+sat-permit", 300), ("only-err", 100), ("empty-set", 100), ("linked", 2000), ("forbid-err", 2000), ("permit-sat", 2000)],
        }],
    }
}
