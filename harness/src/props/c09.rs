//! C09 — the JSON and Cedar schema syntaxes denote the same schema.

use crate::bridge;
use crate::emit::policy as pemit;
use crate::emit::schema as semit;
use crate::emit::text;
use crate::engine::{Property, Rec, SubCheck};
use crate::gen::s::{self, SchemaOpts};
use crate::props::scase;
use crate::refmodel::schema::*;
use crate::tape::Tape;
use cedar_policy::{Policy, PolicyId, PolicySet, Schema, SchemaFragment, ValidationMode, Validator};

pub fn gen_commons(t: &mut Tape, rs: &RSchema) -> Vec<semit::Common> {
    // candidate types: attribute / context / tag types occurring in the schema
    let mut cands: Vec<(String, RType)> = Vec::new();
    for e in &rs.entity_types {
        let ns = split_name(&e.name).0;
        for (ty, _) in e.attrs.values() {
            cands.push((ns.clone(), ty.clone()));
            if let RType::Set(el) = ty {
                cands.push((ns.clone(), (**el).clone()));
            }
        }
        if let Some(tt) = &e.tags {
            cands.push((ns.clone(), tt.clone()));
        }
    }
    for a in &rs.actions {
        for (ty, _) in a.context.values() {
            cands.push((a.ns.clone(), ty.clone()));
        }
        if !a.context.is_empty() {
            cands.push((a.ns.clone(), RType::Rec(a.context.clone())));
        }
    }
    let mut out: Vec<semit::Common> = Vec::new();
    if cands.is_empty() {
        return out;
    }
    let n = t.weighted(&[2, 3, 2]);
    // common types may be called like an extension type (then the built-in has to be written `__cedar::…` in that namespace)
    let names = [["T0", "ipaddr"], ["Alias", "decimal"], ["Shape_1", "datetime"]];
    let declared: Vec<String> = rs.entity_types.iter().map(|e| e.name.clone()).collect();
    for i in 0..n {
        let (ns, ty) = cands[t.upto(cands.len())].clone();
        let name = names[i][if t.bool_p(1, 4) { 1 } else { 0 }].to_string();
        let q = if ns.is_empty() { name.clone() } else { format!("{ns}::{name}") };
        // an entity type and a common type of the same name in one namespace is an error; an unqualified name also
        // resolves to the empty namespace, so avoid clashes there as well
        // (RFC 70 also forbids a definition in a namespace to shadow one in the empty namespace: keep base names unique)
        let _ = q;
        if declared.iter().any(|d| split_name(d).1 == name) || out.iter().any(|(_, n, _)| n == &name) {
            continue;
        }
        if !out.iter().any(|(ons, _, oty)| ons == &ns && oty == &ty) {
            out.push((ns, name, ty));
        }
    }
    out
}

fn validation_fingerprint(schema: &Schema, ps: &PolicySet) -> Vec<String> {
    let v = Validator::new(schema.clone());
    let r = v.validate(ps, ValidationMode::Strict);
    let mut out: Vec<String> = r.validation_errors().map(|e| format!("E:{}:{}", e.policy_id(), e)).chain(r.validation_warnings().map(|w| format!("W:{}:{}", w.policy_id(), w))).collect();
    out.sort();
    out
}

fn case(t: &mut Tape, rec: &mut Rec<'_>) {
    let o = SchemaOpts { multi_ns: true, shadow: true, ..SchemaOpts::default() };
    let rs = s::gen_schema(t, &o);
    let commons = gen_commons(t, &rs);
    let annotated = t.coin();
    let salt = t.upto(1 << 16) as u32;
    let emit = |t: &mut Tape| semit::with_commons(&commons, || (semit::schema_json(&rs, Some(t)), semit::schema_cedar(&rs, Some(t))));
    let (j, c) = if annotated { semit::with_annotations(salt, || emit(t)) } else { emit(t) };
    rec.label_if(annotated && (c.contains('@')), "annotations");
    let multi_ns = rs.namespaces().len() >= 2;
    rec.nontrivial = multi_ns || !commons.is_empty() || rs.entity_types.iter().any(|e| e.enum_ids.is_some()) || c.contains('"');
    rec.label_if(multi_ns, "multi-namespace");
    rec.label_if(!commons.is_empty(), "common-types");
    rec.label_if(commons.iter().any(|(_, n, _)| ["ipaddr", "decimal", "datetime"].contains(&n.as_str())), "common-type-shadows-extension-type");
    rec.label_if(rs.entity_types.iter().any(|e| ["String", "Long", "Bool", "ipaddr"].contains(&split_name(&e.name).1.as_str())), "shadowed-builtin");
    rec.label_if(rs.entity_types.iter().any(|e| e.enum_ids.is_some()), "enum");
    rec.label_if(rs.entity_types.iter().any(|e| e.tags.is_some()), "tags");
    rec.set_key(&(j.to_string(), c.clone()));
    rec.render(|| format!("JSON syntax:\n{j}\nCedar syntax:\n{c}"));
    // load both emissions
    let frag_j = match SchemaFragment::from_json_value(j.clone()) {
        Ok(f) => f,
        Err(e) => {
            rec.fail("generated-schema-rejected:json", format!("{e}\n{j}"));
            return;
        }
    };
    let schema_j = match Schema::from_json_value(j.clone()) {
        Ok(s) => s,
        Err(e) => {
            rec.fail("generated-schema-rejected:json", format!("{e}\n{j}"));
            return;
        }
    };
    let (frag_c, schema_c) = match (SchemaFragment::from_cedarschema_str(&c), Schema::from_cedarschema_str(&c)) {
        (Ok((f, _)), Ok((s, _))) => (f, s),
        (Err(e), _) | (_, Err(e)) => {
            rec.fail("generated-schema-rejected:cedar", format!("{e}\n{c}"));
            return;
        }
    };
    // the two syntaxes of one reference schema denote the same schema
    if schema_j.as_ref() != schema_c.as_ref() {
        rec.fail("cross-syntax", format!("the JSON and the Cedar rendering of one schema load to different schemas\nJSON: {j}\nCedar:\n{c}"));
        return;
    }
    // JSON -> Cedar translation
    match frag_j.to_cedarschema() {
        Ok(txt) => {
            rec.label("json->cedar:ok");
            rec.render(|| format!("to_cedarschema:\n{txt}"));
            match Schema::from_cedarschema_str(&txt) {
                Ok((s2, _)) => {
                    if s2.as_ref() != schema_j.as_ref() {
                        rec.fail("json->cedar:differs", format!("translating the JSON schema to Cedar syntax and loading it gives a different schema\nJSON: {j}\ntranslated:\n{txt}"));
                        return;
                    }
                }
                Err(e) => {
                    rec.fail("json->cedar:unparseable", format!("to_cedarschema produced text that does not load: {e}\n{txt}\nfrom JSON: {j}"));
                    return;
                }
            }
        }
        Err(_) => rec.label("json->cedar:translation-error"),
    }
    // Cedar -> JSON translation
    match frag_c.to_json_value() {
        Ok(j2) => {
            rec.label("cedar->json:ok");
            match Schema::from_json_value(j2.clone()) {
                Ok(s2) => {
                    if s2.as_ref() != schema_c.as_ref() {
                        rec.fail("cedar->json:differs", format!("translating the Cedar schema to JSON and loading it gives a different schema\nCedar:\n{c}\ntranslated: {j2}"));
                        return;
                    }
                }
                Err(e) => {
                    rec.fail("cedar->json:unparseable", format!("to_json_value produced a document that does not load: {e}\n{j2}\nfrom Cedar:\n{c}"));
                    return;
                }
            }
        }
        Err(_) => rec.label("cedar->json:translation-error"),
    }
    // behavioural backstop (guards against a weakened equality): identical validation and conformance verdicts
    let translated: Option<Schema> = frag_j.to_cedarschema().ok().and_then(|txt| Schema::from_cedarschema_str(&txt).ok().map(|x| x.0));
    let envs = s::all_envs(&rs);
    if !envs.is_empty() {
        let mut ps = PolicySet::new();
        for i in 0..3 {
            let (a, p, r) = &envs[t.upto(envs.len())];
            let trap = t.coin();
            let tp = s::gen_policy_for(t, &rs, a, p, r, 2, 2, trap, 0);
            let txt = pemit::policy_text(&tp.policy, &mut text::Style::canonical());
            if let Ok(pol) = Policy::parse(Some(PolicyId::new(format!("p{i}"))), &txt) {
                let _ = ps.add(pol);
            }
        }
        let base = validation_fingerprint(&schema_j, &ps);
        for (what, sch) in [("cedar rendering", Some(&schema_c)), ("translated schema", translated.as_ref())] {
            if let Some(sch) = sch {
                let other = validation_fingerprint(sch, &ps);
                if other != base {
                    rec.fail("validation-verdicts-differ", format!("policy validation differs between the JSON schema and its {what}:\n{base:?}\n{other:?}\npolicies:\n{ps}"));
                    return;
                }
            }
        }
        // request / entity validation
        let world = s::gen_world(t, &rs);
        // also a world for a *different* schema (mostly non-conformant)
        let other_rs = s::gen_schema(t, &o);
        let alien = s::gen_world(t, &other_rs);
        for w in [&world, &alien] {
            let a = scase::build_entities(w, &schema_j).is_ok();
            let b = scase::build_entities(w, &schema_c).is_ok();
            let c2 = translated.as_ref().map(|s| scase::build_entities(w, s).is_ok());
            if a != b || c2.map(|x| x != a).unwrap_or(false) {
                rec.fail("entity-verdicts-differ", format!("entity validation verdicts differ: json={a} cedar={b} translated={c2:?}\nentities: {}", semit::entities_json_explicit(w)));
                return;
            }
        }
        if let Some(req) = s::gen_request(t, &rs) {
            let a = scase::build_request(&req, &schema_j).is_ok();
            let b = scase::build_request(&req, &schema_c).is_ok();
            if a != b || !a {
                rec.fail("request-verdicts-differ", format!("request validation: json={a} cedar={b} for a conformant request {req:?}"));
                return;
            }
        }
        let _ = bridge::euid;
    }
}

pub fn property() -> Property {
    Property {
        id: "C09",
        rule: "Schema-G reference schemas (1-2 namespaces; a third of them with an entity type called String / Long / Bool / ipaddr or a common type called ipaddr / decimal / datetime, so that built-ins must be written __cedar::…; half of them annotated on namespaces, entity types, actions, common types and attributes; enumerated types as parent types; entity types with required/optional attributes of all types incl. nested records/sets/extension types, tags, memberOf incl. cycles and cross-namespace, enums, actions with groups and per-action contexts, \
               0-2 common types referenced at random) emitted in the JSON syntax and in the Cedar syntax with random layout (qualified vs unqualified names, Entity vs EntityOrCommon, quoted identifiers, `=`, `in X` vs `in [X]`). \
               Oracle: both emissions load to equal schemas; to_cedarschema of the JSON fragment and to_json_value of the Cedar fragment load to a schema equal to their source (translation errors are counted, not judged); policy validation, entity validation and request validation give identical verdicts under all. \
               Non-trivial = >=2 namespaces, a common type, an enum or a quoted identifier.",
        assumptions: &["harness schema emitters (cross-checked against each other by the cross-syntax oracle)", "ValidatorSchema PartialEq, backed by behavioural comparison"],
        subs: vec![SubCheck { name: "translate", cases: (30_000, 600_000), tape_len: 2500, run: case, min_labels: &[("multi-namespace", 3000), ("common-types", 6000), ("enum", 4000), ("tags", 6000), ("shadowed-builtin", 3000), ("json->cedar:ok", 20_000), ("cedar->json:ok", 20_000)] }],
    }
}
