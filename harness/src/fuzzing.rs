//! Entry points used by the libFuzzer targets (harness/fuzz). A violation aborts the process with a message
//! carrying the signature, so that libFuzzer stores the input as a crash artifact; the `check` binary turns
//! the artifact into a replay file.

use crate::engine::{self, Known, Params, Tier};
use std::sync::OnceLock;

struct Target {
    prop: crate::engine::Property,
    sub: usize,
    params: Params,
}

fn target() -> &'static Target {
    static T: OnceLock<Target> = OnceLock::new();
    T.get_or_init(|| {
        engine::install_panic_hook();
        let spec = std::env::var("VERIF_FUZZ_TARGET").unwrap_or_else(|_| "C20:policy-text".to_string());
        let (pid, sname) = spec.split_once(':').expect("VERIF_FUZZ_TARGET = <property>:<sub-check>");
        let prop = crate::props::all().into_iter().find(|p| p.id == pid).expect("unknown property");
        let sub = prop.subs.iter().position(|s| s.name == sname).expect("unknown sub-check");
        let params = Params { prop: prop.id, tier: Tier::Thorough, seed: 0, known: Known::load(), strict: false };
        Target { prop, sub, params }
    })
}

pub fn tape_target(data: &[u8]) {
    let t = target();
    let words: Vec<u32> = crate::tape::Tape::from_bytes(data).words().to_vec();
    let r = engine::run_case(&t.prop.subs[t.sub], &words, &t.params, false);
    if let Some(f) = r.failure {
        eprintln!("VERIF-FUZZ-VIOLATION property={} sub={} signature={}\n{}", t.prop.id, t.prop.subs[t.sub].name, f.sig, f.msg);
        std::process::abort();
    }
}

/// raw text: C20 entry points (no panic) + C05 round trip + C12 formatter oracles on whatever parses
pub fn text_target(data: &[u8]) {
    let _ = target(); // installs the panic hook
    let Ok(s) = std::str::from_utf8(data) else { return };
    // nesting depth bound of the property
    let mut depth = 0i32;
    let mut max_depth = 0i32;
    for c in s.chars() {
        match c {
            '(' | '[' | '{' => {
                depth += 1;
                max_depth = max_depth.max(depth);
            }
            ')' | ']' | '}' => depth -= 1,
            _ => {}
        }
    }
    if max_depth > 48 || s.matches('!').count() > 200 || s.matches('-').count() > 200 {
        return;
    }
    let res = engine::guarded(|| crate::props::fuzz_text_oracles(s));
    match res {
        Ok(None) => {}
        Ok(Some((sig, msg))) => {
            eprintln!("VERIF-FUZZ-VIOLATION property=text signature={sig}\n{msg}");
            std::process::abort();
        }
        Err((loc, msg)) => {
            eprintln!("VERIF-FUZZ-VIOLATION property=C20 signature=panic:{loc}\n{msg}");
            std::process::abort();
        }
    }
}
