//! Reference semantics of the extension types, written from the documented string forms
//! (decimal `-?D+.D{1,4}`; ip = IPv4 / IPv6 / CIDR, no IPv4-in-IPv6, no leading zeros in prefixes;
//! datetime `YYYY-MM-DD[THH:MM:SS(Z|.SSSZ|(+|-)hhmm|.SSS(+|-)hhmm)]`; duration = `-?(Nd)?(Nh)?(Nm)?(Ns)?(Nms)?`, non-empty),
//! with exact arithmetic in i128 and own civil-date code. Shares no code with cedar.

#[derive(Clone, Copy, Debug, PartialEq, Eq, PartialOrd, Ord, Hash)]
pub struct Ip {
    pub v6: bool,
    pub addr: u128,
    pub prefix: u8,
}

pub const MS_PER_DAY: i128 = 86_400_000;

fn all_ascii_digits(s: &str) -> bool {
    !s.is_empty() && s.bytes().all(|b| b.is_ascii_digit())
}

/// value in i128, saturating far outside the i64 range
fn digits_to_i128(s: &str) -> i128 {
    let mut v: i128 = 0;
    for b in s.bytes() {
        v = v.saturating_mul(10).saturating_add((b - b'0') as i128);
        if v > (1i128 << 100) {
            v = 1i128 << 100;
        }
    }
    v
}

/// decimal: value * 10^4 as i64
pub fn parse_decimal(s: &str) -> Option<i64> {
    let (neg, body) = match s.strip_prefix('-') {
        Some(r) => (true, r),
        None => (false, s),
    };
    let (int, frac) = body.split_once('.')?;
    if !all_ascii_digits(int) || !all_ascii_digits(frac) || frac.len() > 4 {
        return None;
    }
    let i = digits_to_i128(int);
    let mut f = digits_to_i128(frac);
    for _ in frac.len()..4 {
        f *= 10;
    }
    let mag = i.saturating_mul(10_000).saturating_add(f);
    let v = if neg { -mag } else { mag };
    i64::try_from(v).ok()
}

pub fn decimal_canonical(v: i64) -> String {
    let a = (v as i128).abs();
    format!("{}{}.{:04}", if v < 0 { "-" } else { "" }, a / 10_000, a % 10_000)
}

fn parse_v4(s: &str) -> Option<u32> {
    let parts: Vec<&str> = s.split('.').collect();
    if parts.len() != 4 {
        return None;
    }
    let mut a: u32 = 0;
    for p in parts {
        if !all_ascii_digits(p) || p.len() > 3 || (p.len() > 1 && p.starts_with('0')) {
            return None;
        }
        let v: u32 = p.parse().ok()?;
        if v > 255 {
            return None;
        }
        a = (a << 8) | v;
    }
    Some(a)
}

fn parse_v6(s: &str) -> Option<u128> {
    fn groups(s: &str) -> Option<Vec<u16>> {
        if s.is_empty() {
            return Some(vec![]);
        }
        s.split(':')
            .map(|g| {
                if g.is_empty() || g.len() > 4 || !g.bytes().all(|b| b.is_ascii_hexdigit()) {
                    None
                } else {
                    u16::from_str_radix(g, 16).ok()
                }
            })
            .collect()
    }
    let gs: Vec<u16> = if let Some((h, t)) = s.split_once("::") {
        if t.contains("::") {
            return None;
        }
        let head = groups(h)?;
        let tail = groups(t)?;
        if head.len() + tail.len() > 7 {
            return None;
        }
        let mut v = head;
        let fill = 8 - v.len() - tail.len();
        v.extend(std::iter::repeat(0).take(fill));
        v.extend(tail);
        v
    } else {
        let g = groups(s)?;
        if g.len() != 8 {
            return None;
        }
        g
    };
    let mut a: u128 = 0;
    for g in gs {
        a = (a << 16) | g as u128;
    }
    Some(a)
}

fn parse_prefix(s: &str, max: u32) -> Option<u8> {
    if !all_ascii_digits(s) || s.len() > 3 || (s.len() > 1 && s.starts_with('0')) {
        return None;
    }
    let v: u32 = s.parse().ok()?;
    if v > max {
        None
    } else {
        Some(v as u8)
    }
}

pub fn parse_ip(s: &str) -> Option<Ip> {
    if s.len() > 43 {
        return None;
    }
    let (a, p) = match s.split_once('/') {
        Some((a, p)) => (a, Some(p)),
        None => (s, None),
    };
    if a.contains(':') {
        if a.contains('.') {
            return None; // IPv4 embedded in IPv6 is refused
        }
        let addr = parse_v6(a)?;
        let prefix = match p {
            Some(p) => parse_prefix(p, 128)?,
            None => 128,
        };
        Some(Ip { v6: true, addr, prefix })
    } else {
        let addr = parse_v4(a)? as u128;
        let prefix = match p {
            Some(p) => parse_prefix(p, 32)?,
            None => 32,
        };
        Some(Ip { v6: false, addr, prefix })
    }
}

impl Ip {
    fn bits(&self) -> u32 {
        if self.v6 {
            128
        } else {
            32
        }
    }
    /// [lo, hi] of the addresses denoted
    pub fn range(&self) -> (u128, u128) {
        let host_bits = self.bits() - self.prefix as u32;
        let full: u128 = if self.v6 { u128::MAX } else { u32::MAX as u128 };
        let hostmask: u128 = if host_bits == 0 {
            0
        } else if host_bits == 128 {
            u128::MAX
        } else {
            (1u128 << host_bits) - 1
        };
        let lo = self.addr & !hostmask & full;
        let hi = (self.addr | hostmask) & full;
        (lo, hi)
    }
    pub fn in_range(&self, other: &Ip) -> bool {
        if self.v6 != other.v6 {
            return false;
        }
        let (l, h) = self.range();
        let (ol, oh) = other.range();
        ol <= l && h <= oh
    }
    pub fn is_loopback(&self) -> bool {
        let lb = if self.v6 { Ip { v6: true, addr: 1, prefix: 128 } } else { Ip { v6: false, addr: 127u128 << 24, prefix: 8 } };
        self.in_range(&lb)
    }
    pub fn is_multicast(&self) -> bool {
        let mc = if self.v6 { Ip { v6: true, addr: 0xffu128 << 120, prefix: 8 } } else { Ip { v6: false, addr: 224u128 << 24, prefix: 4 } };
        self.in_range(&mc)
    }
    /// a spelling cedar's constructor accepts (used to rebuild the value in text)
    pub fn spelling(&self) -> String {
        if self.v6 {
            let gs: Vec<String> = (0..8).map(|i| format!("{:x}", (self.addr >> (112 - 16 * i)) & 0xffff)).collect();
            format!("{}/{}", gs.join(":"), self.prefix)
        } else {
            let a = self.addr as u32;
            format!("{}.{}.{}.{}/{}", a >> 24, (a >> 16) & 255, (a >> 8) & 255, a & 255, self.prefix)
        }
    }
}

pub fn is_leap(y: i64) -> bool {
    (y % 4 == 0 && y % 100 != 0) || y % 400 == 0
}

pub fn days_in_month(y: i64, m: i64) -> i64 {
    match m {
        1 | 3 | 5 | 7 | 8 | 10 | 12 => 31,
        4 | 6 | 9 | 11 => 30,
        2 => {
            if is_leap(y) {
                29
            } else {
                28
            }
        }
        _ => 0,
    }
}

/// days since 1970-01-01 of a proleptic Gregorian date (simple counting, year 0..=9999)
pub fn days_from_civil(y: i64, m: i64, d: i64) -> i64 {
    // days from year 0 Jan 1 to year y Jan 1
    let days_before_year = |y: i64| -> i64 {
        // number of leap years in [0, y)
        let leaps = if y == 0 { 0 } else { (y - 1) / 4 - (y - 1) / 100 + (y - 1) / 400 + 1 };
        y * 365 + leaps
    };
    let mut days = days_before_year(y) - days_before_year(1970);
    for mm in 1..m {
        days += days_in_month(y, mm);
    }
    days + (d - 1)
}

fn two(s: &str) -> Option<i64> {
    if s.len() == 2 && all_ascii_digits(s) {
        s.parse().ok()
    } else {
        None
    }
}

/// datetime: milliseconds since the epoch
pub fn parse_datetime(s: &str) -> Option<i64> {
    if !s.is_ascii() || s.len() < 10 {
        return None;
    }
    let b = s.as_bytes();
    if b[4] != b'-' || b[7] != b'-' {
        return None;
    }
    if !all_ascii_digits(&s[0..4]) {
        return None;
    }
    let y: i64 = s[0..4].parse().ok()?;
    let mo = two(&s[5..7])?;
    let d = two(&s[8..10])?;
    if !(1..=12).contains(&mo) || d < 1 || d > days_in_month(y, mo) {
        return None;
    }
    let day_ms = days_from_civil(y, mo, d) as i128 * MS_PER_DAY;
    let rest = &s[10..];
    if rest.is_empty() {
        return i64::try_from(day_ms).ok();
    }
    // THH:MM:SS
    if rest.len() < 9 {
        return None;
    }
    let rb = rest.as_bytes();
    if rb[0] != b'T' || rb[3] != b':' || rb[6] != b':' {
        return None;
    }
    let h = two(&rest[1..3])?;
    let mi = two(&rest[4..6])?;
    let sec = two(&rest[7..9])?;
    if h > 23 || mi > 59 || sec > 59 {
        return None;
    }
    let mut tail = &rest[9..];
    let mut ms: i64 = 0;
    if let Some(t) = tail.strip_prefix('.') {
        if t.len() < 3 || !all_ascii_digits(&t[0..3]) {
            return None;
        }
        ms = t[0..3].parse().ok()?;
        tail = &t[3..];
    }
    let off_s: i64 = if tail == "Z" {
        0
    } else {
        if tail.len() != 5 {
            return None;
        }
        let sign = match tail.as_bytes()[0] {
            b'+' => 1,
            b'-' => -1,
            _ => return None,
        };
        let oh = two(&tail[1..3])?;
        let om = two(&tail[3..5])?;
        if oh > 23 || om > 59 {
            return None;
        }
        sign * (oh * 3600 + om * 60)
    };
    let local = day_ms + ((h * 3600 + mi * 60 + sec) * 1000 + ms) as i128;
    i64::try_from(local - off_s as i128 * 1000).ok()
}

/// duration in milliseconds
pub fn parse_duration(s: &str) -> Option<i64> {
    let (neg, mut body) = match s.strip_prefix('-') {
        Some(r) => (true, r),
        None => (false, s),
    };
    if body.is_empty() || !body.is_ascii() {
        return None;
    }
    const UNITS: [(&str, i128); 5] = [("d", 86_400_000), ("h", 3_600_000), ("m", 60_000), ("s", 1000), ("ms", 1)];
    let mut total: i128 = 0;
    let mut next_unit = 0usize;
    while !body.is_empty() {
        let nd = body.bytes().take_while(|b| b.is_ascii_digit()).count();
        if nd == 0 {
            return None;
        }
        let num = digits_to_i128(&body[..nd]);
        let after = &body[nd..];
        // longest unit first: "ms" before "m"
        let (ui, ulen) = if after.starts_with("ms") {
            (4, 2)
        } else if after.starts_with('d') {
            (0, 1)
        } else if after.starts_with('h') {
            (1, 1)
        } else if after.starts_with('m') {
            (2, 1)
        } else if after.starts_with('s') {
            (3, 1)
        } else {
            return None;
        };
        if ui < next_unit {
            return None; // out of order or repeated
        }
        next_unit = ui + 1;
        // each quantity must itself be a u64 (documented: digits parse as an unsigned 64-bit number)
        if num > u64::MAX as i128 {
            return None;
        }
        total = total.saturating_add(num.saturating_mul(UNITS[ui].1));
        body = &after[ulen..];
    }
    let v = if neg { -total } else { total };
    i64::try_from(v).ok()
}

pub fn duration_spelling(ms: i64) -> String {
    format!("{ms}ms")
}

/// toDate: floor to the day; None when not representable
pub fn to_date(epoch: i64) -> Option<i64> {
    let e = epoch as i128;
    let day = e.div_euclid(MS_PER_DAY);
    i64::try_from(day * MS_PER_DAY).ok()
}

pub fn to_time(epoch: i64) -> i64 {
    (epoch as i128).rem_euclid(MS_PER_DAY) as i64
}

/// truncating division toward zero
pub fn dur_units(ms: i64, unit_ms: i64) -> i64 {
    ((ms as i128) / (unit_ms as i128)) as i64
}

#[cfg(test)]
mod tests {
    use super::*;
    #[test]
    fn decimals() {
        assert_eq!(parse_decimal("1.0"), Some(10000));
        assert_eq!(parse_decimal("-0.5"), Some(-5000));
        assert_eq!(parse_decimal("1.2345"), Some(12345));
        assert_eq!(parse_decimal("1.23456"), None);
        assert_eq!(parse_decimal("922337203685477.5807"), Some(i64::MAX));
        assert_eq!(parse_decimal("922337203685477.5808"), None);
        assert_eq!(parse_decimal("-922337203685477.5808"), Some(i64::MIN));
        assert_eq!(parse_decimal("1."), None);
        assert_eq!(parse_decimal(".1"), None);
        assert_eq!(parse_decimal("1"), None);
    }
    #[test]
    fn ips() {
        assert_eq!(parse_ip("127.0.0.1"), Some(Ip { v6: false, addr: 0x7f000001, prefix: 32 }));
        assert!(parse_ip("127.0.0.1/032").is_none());
        assert!(parse_ip("::ffff:1.2.3.4").is_none());
        assert!(parse_ip("01.2.3.4").is_none());
        assert_eq!(parse_ip("::1"), Some(Ip { v6: true, addr: 1, prefix: 128 }));
        assert!(parse_ip("10.0.0.1").unwrap().in_range(&parse_ip("0.0.0.0/0").unwrap()));
        assert!(parse_ip("127.0.0.0/8").unwrap().is_loopback());
        assert!(!parse_ip("127.0.0.0/7").unwrap().is_loopback());
    }
    #[test]
    fn dates() {
        assert_eq!(parse_datetime("1970-01-01"), Some(0));
        assert_eq!(parse_datetime("1970-01-02"), Some(86_400_000));
        assert_eq!(parse_datetime("1969-12-31"), Some(-86_400_000));
        assert_eq!(parse_datetime("2024-02-29T01:00:00+0100"), parse_datetime("2024-02-29"));
        assert_eq!(parse_datetime("2023-02-29"), None);
        assert_eq!(parse_datetime("2000-01-01"), Some(946_684_800_000));
        assert_eq!(parse_datetime("0000-01-01"), Some(-62_167_219_200_000));
        assert_eq!(parse_datetime("1970-01-01T00:00:00"), None);
        assert_eq!(parse_datetime("1970-01-01T00:00:00.001Z"), Some(1));
    }
    #[test]
    fn durations() {
        assert_eq!(parse_duration("1d2h3m4s5ms"), Some(86_400_000 + 7_200_000 + 180_000 + 4000 + 5));
        assert_eq!(parse_duration("-1ms"), Some(-1));
        assert_eq!(parse_duration(""), None);
        assert_eq!(parse_duration("-"), None);
        assert_eq!(parse_duration("1m1d"), None);
        assert_eq!(parse_duration("5ms"), Some(5));
        assert_eq!(parse_duration("5m5ms"), Some(300_005));
        assert_eq!(parse_duration("9223372036854775807ms"), Some(i64::MAX));
        assert_eq!(parse_duration("9223372036854775808ms"), None);
        assert_eq!(parse_duration("-9223372036854775808ms"), Some(i64::MIN));
    }
}

/// (year, month, day) of a day count since 1970-01-01 (proleptic Gregorian), own arithmetic
pub fn civil_from_days(days: i64) -> (i64, i64, i64) {
    let before = |y: i64| -> i64 {
        // days from 0000-01-01 to y-01-01 (y may be negative)
        let leaps = |y: i64| -> i64 {
            // number of leap years in [0, y) for y >= 0; for y < 0, minus the number in [y, 0)
            if y >= 0 {
                if y == 0 {
                    0
                } else {
                    (y - 1) / 4 - (y - 1) / 100 + (y - 1) / 400 + 1
                }
            } else {
                -((-y) / 4 - (-y) / 100 + (-y) / 400)
            }
        };
        y * 365 + leaps(y)
    };
    let d0 = days + (before(1970) - before(0)); // days since 0000-01-01
    let mut y = d0.div_euclid(366).max(-400_000_000);
    // move forward to the right year
    while before(y + 1) - before(0) <= d0 {
        y += 1;
    }
    while before(y) - before(0) > d0 {
        y -= 1;
    }
    let mut rem = d0 - (before(y) - before(0));
    let mut m = 1;
    loop {
        let dim = days_in_month(y, m);
        if rem < dim {
            break;
        }
        rem -= dim;
        m += 1;
    }
    (y, m, rem + 1)
}

#[cfg(test)]
mod civil_tests {
    use super::*;
    #[test]
    fn roundtrip() {
        for d in (-719_528..2_932_896).step_by(37) {
            let (y, m, dd) = civil_from_days(d);
            assert!((0..=9999).contains(&y), "{d} -> {y}");
            assert_eq!(days_from_civil(y, m, dd), d);
        }
        assert_eq!(civil_from_days(0), (1970, 1, 1));
        assert_eq!(civil_from_days(-1), (1969, 12, 31));
        assert_eq!(civil_from_days(-719_528), (0, 1, 1));
        assert_eq!(civil_from_days(2_932_896), (9999, 12, 31));
    }
}

/// A constructor string for the given instant written with the given UTC offset (minutes); None outside 0000..=9999.
pub fn datetime_spelling(ms: i64, off_min: i64) -> Option<String> {
    let local = ms as i128 + off_min as i128 * 60_000;
    let day = i64::try_from(local.div_euclid(MS_PER_DAY)).ok()?;
    if !(-719_528..=2_932_896).contains(&day) {
        return None;
    }
    let tod = local.rem_euclid(MS_PER_DAY) as i64;
    let (y, m, d) = civil_from_days(day);
    if !(0..=9999).contains(&y) {
        return None;
    }
    let (h, mi, s, milli) = (tod / 3_600_000, tod / 60_000 % 60, tod / 1000 % 60, tod % 1000);
    let off = if off_min == 0 { "Z".to_string() } else { format!("{}{:02}{:02}", if off_min < 0 { '-' } else { '+' }, off_min.abs() / 60, off_min.abs() % 60) };
    Some(format!("{y:04}-{m:02}-{d:02}T{h:02}:{mi:02}:{s:02}.{milli:03}{off}"))
}
