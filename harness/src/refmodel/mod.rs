//! Independent reference model of Cedar: values, expressions, evaluation, authorization.
//! Written from the language documentation; shares no code with the implementation under test.

pub mod ext;
pub mod policy;
pub mod schema;

use std::collections::{BTreeMap, BTreeSet};

#[derive(Clone, Debug, PartialEq, Eq, PartialOrd, Ord, Hash)]
pub struct Uid {
    pub ty: String,
    pub id: String,
}

impl Uid {
    pub fn new(ty: &str, id: &str) -> Uid {
        Uid { ty: ty.to_string(), id: id.to_string() }
    }
}

#[derive(Clone, Debug, PartialEq, Eq, PartialOrd, Ord, Hash)]
pub enum V {
    Bool(bool),
    Long(i64),
    Str(String),
    Euid(Uid),
    Set(BTreeSet<V>),
    Rec(BTreeMap<String, V>),
    Decimal(i64),
    Ip(ext::Ip),
    Datetime(i64),
    Duration(i64),
}

impl V {
    pub fn set(it: impl IntoIterator<Item = V>) -> V {
        V::Set(it.into_iter().collect())
    }
    pub fn kind(&self) -> &'static str {
        match self {
            V::Bool(_) => "bool",
            V::Long(_) => "long",
            V::Str(_) => "string",
            V::Euid(_) => "entity",
            V::Set(_) => "set",
            V::Rec(_) => "record",
            V::Decimal(_) => "decimal",
            V::Ip(_) => "ipaddr",
            V::Datetime(_) => "datetime",
            V::Duration(_) => "duration",
        }
    }
}

#[derive(Clone, Copy, Debug, PartialEq, Eq, PartialOrd, Ord, Hash)]
pub enum Var {
    Principal,
    Action,
    Resource,
    Context,
}

impl Var {
    pub fn name(self) -> &'static str {
        match self {
            Var::Principal => "principal",
            Var::Action => "action",
            Var::Resource => "resource",
            Var::Context => "context",
        }
    }
}

#[derive(Clone, Copy, Debug, PartialEq, Eq, PartialOrd, Ord, Hash)]
pub enum BinOp {
    Eq,
    Neq, // sugar: !(a == b)
    Lt,
    Le,
    Gt, // sugar: !(a <= b)
    Ge, // sugar: !(a < b)
    Add,
    Sub,
    Mul,
    In,
    Contains,
    ContainsAll,
    ContainsAny,
    GetTag,
    HasTag,
}

#[derive(Clone, Debug, PartialEq, Eq, PartialOrd, Ord, Hash)]
pub enum Pat {
    Char(char),
    Star,
}

#[derive(Clone, Debug, PartialEq, Eq, PartialOrd, Ord, Hash)]
pub enum E {
    Lit(V), // Bool, Long, Str, Euid only
    Var(Var),
    If(Box<E>, Box<E>, Box<E>),
    And(Box<E>, Box<E>),
    Or(Box<E>, Box<E>),
    Not(Box<E>),
    Neg(Box<E>),
    Bin(BinOp, Box<E>, Box<E>),
    IsEmpty(Box<E>),
    GetAttr(Box<E>, String),
    /// `e has a.b.c` (a one-element path is the plain form)
    Has(Box<E>, Vec<String>),
    Like(Box<E>, Vec<Pat>),
    /// `e is T` / `e is T in e2`
    Is(Box<E>, String, Option<Box<E>>),
    Set(Vec<E>),
    Rec(Vec<(String, E)>),
    /// extension call; constructors are printed function-style, everything else method-style
    Call(String, Vec<E>),
}

pub fn b(e: E) -> Box<E> {
    Box::new(e)
}

impl E {
    pub fn long(i: i64) -> E {
        E::Lit(V::Long(i))
    }
    pub fn str(s: &str) -> E {
        E::Lit(V::Str(s.to_string()))
    }
    pub fn bool(x: bool) -> E {
        E::Lit(V::Bool(x))
    }
    pub fn depth(&self) -> usize {
        1 + self.children().iter().map(|c| c.depth()).max().unwrap_or(0)
    }
    pub fn size(&self) -> usize {
        1 + self.children().iter().map(|c| c.size()).sum::<usize>()
    }
    pub fn children(&self) -> Vec<&E> {
        match self {
            E::Lit(_) | E::Var(_) => vec![],
            E::If(a, b, c) => vec![a, b, c],
            E::And(a, b) | E::Or(a, b) | E::Bin(_, a, b) => vec![a, b],
            E::Not(a) | E::Neg(a) | E::IsEmpty(a) | E::GetAttr(a, _) | E::Has(a, _) | E::Like(a, _) => vec![a],
            E::Is(a, _, None) => vec![a],
            E::Is(a, _, Some(b)) => vec![a, b],
            E::Set(xs) | E::Call(_, xs) => xs.iter().collect(),
            E::Rec(fs) => fs.iter().map(|(_, e)| e).collect(),
        }
    }
    /// does the expression contain an extension call with the wrong number of arguments?
    pub fn has_arity_error(&self) -> bool {
        (match self {
            E::Call(f, xs) => ext_arity(f) != Some(xs.len()),
            _ => false,
        }) || self.children().iter().any(|c| c.has_arity_error())
    }
    /// `BoolLit && BoolLit` and `BoolLit || BoolLit` are folded when an AST is constructed (documented on
    /// the expression builder); structural comparisons are made modulo this fold.
    pub fn fold_bool_lits(&self) -> E {
        let f = |x: &E| b(x.fold_bool_lits());
        match self {
            E::Lit(_) | E::Var(_) => self.clone(),
            E::If(a, x, y) => E::If(f(a), f(x), f(y)),
            E::And(x, y) => match (x.fold_bool_lits(), y.fold_bool_lits()) {
                (E::Lit(V::Bool(p)), E::Lit(V::Bool(q))) => E::bool(p && q),
                (p, q) => E::And(b(p), b(q)),
            },
            E::Or(x, y) => match (x.fold_bool_lits(), y.fold_bool_lits()) {
                (E::Lit(V::Bool(p)), E::Lit(V::Bool(q))) => E::bool(p || q),
                (p, q) => E::Or(b(p), b(q)),
            },
            E::Not(x) => E::Not(f(x)),
            E::Neg(x) => E::Neg(f(x)),
            E::Bin(op, x, y) => E::Bin(*op, f(x), f(y)),
            E::IsEmpty(x) => E::IsEmpty(f(x)),
            E::GetAttr(x, a) => E::GetAttr(f(x), a.clone()),
            E::Has(x, p) => E::Has(f(x), p.clone()),
            E::Like(x, p) => E::Like(f(x), p.clone()),
            E::Is(x, t, y) => E::Is(f(x), t.clone(), y.as_ref().map(|y| f(y))),
            E::Set(xs) => E::Set(xs.iter().map(|x| x.fold_bool_lits()).collect()),
            E::Rec(fs) => E::Rec(fs.iter().map(|(k, e)| (k.clone(), e.fold_bool_lits())).collect()),
            E::Call(g, xs) => E::Call(g.clone(), xs.iter().map(|x| x.fold_bool_lits()).collect()),
        }
    }
    /// Remove surface sugar (`!=`, `>`, `>=`, `has a.b.c`, `is T in e`) — the core language.
    pub fn desugar(&self) -> E {
        match self {
            E::Lit(_) | E::Var(_) => self.clone(),
            E::If(a, x, y) => E::If(b(a.desugar()), b(x.desugar()), b(y.desugar())),
            E::And(x, y) => E::And(b(x.desugar()), b(y.desugar())),
            E::Or(x, y) => E::Or(b(x.desugar()), b(y.desugar())),
            E::Not(x) => E::Not(b(x.desugar())),
            E::Neg(x) => E::Neg(b(x.desugar())),
            E::Bin(op, x, y) => {
                let (x, y) = (b(x.desugar()), b(y.desugar()));
                match op {
                    BinOp::Neq => E::Not(b(E::Bin(BinOp::Eq, x, y))),
                    BinOp::Gt => E::Not(b(E::Bin(BinOp::Le, x, y))),
                    BinOp::Ge => E::Not(b(E::Bin(BinOp::Lt, x, y))),
                    _ => E::Bin(*op, x, y),
                }
            }
            E::IsEmpty(x) => E::IsEmpty(b(x.desugar())),
            E::GetAttr(x, a) => E::GetAttr(b(x.desugar()), a.clone()),
            E::Has(x, path) => {
                let x = x.desugar();
                // e has a.b.c  ==>  (e has a && e.a has b) && e.a.b has c   (left fold, as the language definition gives it)
                let mut cur = x;
                let mut acc: Option<E> = None;
                for a in path {
                    let h = E::Has(b(cur.clone()), vec![a.clone()]);
                    acc = Some(match acc {
                        None => h,
                        Some(prev) => E::And(b(prev), b(h)),
                    });
                    cur = E::GetAttr(b(cur), a.clone());
                }
                acc.expect("non-empty has path")
            }
            E::Like(x, p) => E::Like(b(x.desugar()), p.clone()),
            E::Is(x, t, None) => E::Is(b(x.desugar()), t.clone(), None),
            E::Is(x, t, Some(y)) => {
                let x = x.desugar();
                E::And(b(E::Is(b(x.clone()), t.clone(), None)), b(E::Bin(BinOp::In, b(x), b(y.desugar()))))
            }
            E::Set(xs) => E::Set(xs.iter().map(|x| x.desugar()).collect()),
            E::Rec(fs) => E::Rec(fs.iter().map(|(k, e)| (k.clone(), e.desugar())).collect()),
            E::Call(f, xs) => E::Call(f.clone(), xs.iter().map(|x| x.desugar()).collect()),
        }
    }
}

// ---------------------------------------------------------------------------------------------
// worlds

#[derive(Clone, Debug, Default, PartialEq, Eq)]
pub struct EntityData {
    pub attrs: BTreeMap<String, V>,
    pub tags: BTreeMap<String, V>,
    pub parents: BTreeSet<Uid>,
}

#[derive(Clone, Debug, Default, PartialEq, Eq)]
pub struct World {
    pub entities: BTreeMap<Uid, EntityData>,
}

impl World {
    pub fn ancestors(&self, u: &Uid) -> BTreeSet<Uid> {
        let mut seen = BTreeSet::new();
        let mut stack: Vec<Uid> = self.entities.get(u).map(|e| e.parents.iter().cloned().collect()).unwrap_or_default();
        while let Some(x) = stack.pop() {
            if seen.insert(x.clone()) {
                if let Some(e) = self.entities.get(&x) {
                    stack.extend(e.parents.iter().cloned());
                }
            }
        }
        seen
    }
    pub fn is_in(&self, a: &Uid, b: &Uid) -> bool {
        a == b || self.ancestors(a).contains(b)
    }
}

#[derive(Clone, Debug, PartialEq, Eq)]
pub struct Req {
    pub principal: Uid,
    pub action: Uid,
    pub resource: Uid,
    pub context: BTreeMap<String, V>,
}

// ---------------------------------------------------------------------------------------------
// evaluation

#[derive(Clone, Copy, Debug, PartialEq, Eq, PartialOrd, Ord, Hash)]
pub enum Class {
    Type,
    NoEntity,
    NoAttr,
    Overflow,
    Ext,
    Arity,
    UnknownFn,
}

/// An erroring evaluation. `alts`: other classes that are equally acceptable for this outcome
/// (record literals whose fields error with different classes; "not representable" in extension arithmetic).
#[derive(Clone, Debug, PartialEq, Eq)]
pub struct Err {
    pub class: Class,
    pub alts: Vec<Class>,
}

impl Err {
    pub fn of(c: Class) -> Err {
        Err { class: c, alts: vec![] }
    }
    pub fn accepts(&self, c: Class) -> bool {
        self.class == c || self.alts.contains(&c)
    }
}

pub type R = Result<V, Err>;

pub struct Ctx<'a> {
    pub req: &'a Req,
    pub world: &'a World,
}

fn terr<T>() -> Result<T, Err> {
    Result::Err(Err::of(Class::Type))
}

fn as_bool(v: V) -> Result<bool, Err> {
    match v {
        V::Bool(x) => Ok(x),
        _ => terr(),
    }
}

pub fn like(s: &str, pat: &[Pat]) -> bool {
    let cs: Vec<char> = s.chars().collect();
    let (n, m) = (cs.len(), pat.len());
    // dp[i][j]: cs[i..] matches pat[j..]
    let mut dp = vec![vec![false; m + 1]; n + 1];
    dp[n][m] = true;
    for j in (0..m).rev() {
        dp[n][j] = pat[j] == Pat::Star && dp[n][j + 1];
    }
    for i in (0..n).rev() {
        for j in (0..m).rev() {
            dp[i][j] = match &pat[j] {
                Pat::Star => dp[i][j + 1] || dp[i + 1][j],
                Pat::Char(c) => *c == cs[i] && dp[i + 1][j + 1],
            };
        }
    }
    dp[0][0]
}

const CONSTRUCTORS: [&str; 4] = ["decimal", "ip", "datetime", "duration"];

pub fn is_constructor(f: &str) -> bool {
    CONSTRUCTORS.contains(&f)
}

/// arity of every known extension function (with the receiver counted)
pub fn ext_arity(f: &str) -> Option<usize> {
    Some(match f {
        "decimal" | "ip" | "datetime" | "duration" => 1,
        "lessThan" | "lessThanOrEqual" | "greaterThan" | "greaterThanOrEqual" => 2,
        "isIpv4" | "isIpv6" | "isLoopback" | "isMulticast" => 1,
        "isInRange" => 2,
        "offset" | "durationSince" => 2,
        "toDate" | "toTime" => 1,
        "toMilliseconds" | "toSeconds" | "toMinutes" | "toHours" | "toDays" => 1,
        _ => return None,
    })
}

pub fn call_ext(f: &str, args: &[V]) -> R {
    let Some(ar) = ext_arity(f) else {
        return Result::Err(Err::of(Class::UnknownFn));
    };
    if args.len() != ar {
        return Result::Err(Err::of(Class::Arity));
    }
    let exterr = || Result::Err(Err::of(Class::Ext));
    // "not representable": cedar reports these through the extension-error channel; overflow class tolerated
    let unrep = || Result::Err(Err { class: Class::Ext, alts: vec![Class::Overflow] });
    match f {
        "decimal" | "ip" | "datetime" | "duration" => {
            let V::Str(s) = &args[0] else { return terr() };
            match f {
                "decimal" => ext::parse_decimal(s).map(V::Decimal).map_or_else(exterr, Ok),
                "ip" => ext::parse_ip(s).map(V::Ip).map_or_else(exterr, Ok),
                "datetime" => ext::parse_datetime(s).map(V::Datetime).map_or_else(exterr, Ok),
                _ => ext::parse_duration(s).map(V::Duration).map_or_else(exterr, Ok),
            }
        }
        "lessThan" | "lessThanOrEqual" | "greaterThan" | "greaterThanOrEqual" => {
            let (V::Decimal(a), V::Decimal(c)) = (&args[0], &args[1]) else { return terr() };
            Ok(V::Bool(match f {
                "lessThan" => a < c,
                "lessThanOrEqual" => a <= c,
                "greaterThan" => a > c,
                _ => a >= c,
            }))
        }
        "isIpv4" | "isIpv6" | "isLoopback" | "isMulticast" => {
            let V::Ip(a) = &args[0] else { return terr() };
            Ok(V::Bool(match f {
                "isIpv4" => !a.v6,
                "isIpv6" => a.v6,
                "isLoopback" => a.is_loopback(),
                _ => a.is_multicast(),
            }))
        }
        "isInRange" => {
            let (V::Ip(a), V::Ip(c)) = (&args[0], &args[1]) else { return terr() };
            Ok(V::Bool(a.in_range(c)))
        }
        "offset" => {
            let (V::Datetime(a), V::Duration(d)) = (&args[0], &args[1]) else { return terr() };
            i64::try_from(*a as i128 + *d as i128).map(V::Datetime).map_or_else(|_| unrep(), Ok)
        }
        "durationSince" => {
            let (V::Datetime(a), V::Datetime(c)) = (&args[0], &args[1]) else { return terr() };
            i64::try_from(*a as i128 - *c as i128).map(V::Duration).map_or_else(|_| unrep(), Ok)
        }
        "toDate" => {
            let V::Datetime(a) = &args[0] else { return terr() };
            ext::to_date(*a).map(V::Datetime).map_or_else(unrep, Ok)
        }
        "toTime" => {
            let V::Datetime(a) = &args[0] else { return terr() };
            Ok(V::Duration(ext::to_time(*a)))
        }
        _ => {
            let V::Duration(d) = &args[0] else { return terr() };
            let unit = match f {
                "toMilliseconds" => 1,
                "toSeconds" => 1000,
                "toMinutes" => 60_000,
                "toHours" => 3_600_000,
                _ => 86_400_000,
            };
            Ok(V::Long(ext::dur_units(*d, unit)))
        }
    }
}

pub fn eval(e: &E, cx: &Ctx<'_>) -> R {
    match e {
        E::Lit(v) => Ok(v.clone()),
        E::Var(Var::Principal) => Ok(V::Euid(cx.req.principal.clone())),
        E::Var(Var::Action) => Ok(V::Euid(cx.req.action.clone())),
        E::Var(Var::Resource) => Ok(V::Euid(cx.req.resource.clone())),
        E::Var(Var::Context) => Ok(V::Rec(cx.req.context.clone())),
        E::If(c, t, f) => {
            if as_bool(eval(c, cx)?)? {
                eval(t, cx)
            } else {
                eval(f, cx)
            }
        }
        E::And(x, y) => {
            if !as_bool(eval(x, cx)?)? {
                return Ok(V::Bool(false));
            }
            Ok(V::Bool(as_bool(eval(y, cx)?)?))
        }
        E::Or(x, y) => {
            if as_bool(eval(x, cx)?)? {
                return Ok(V::Bool(true));
            }
            Ok(V::Bool(as_bool(eval(y, cx)?)?))
        }
        E::Not(x) => Ok(V::Bool(!as_bool(eval(x, cx)?)?)),
        E::Neg(x) => match eval(x, cx)? {
            V::Long(i) => i.checked_neg().map(V::Long).ok_or(Err::of(Class::Overflow)),
            _ => terr(),
        },
        E::Bin(op, x, y) => {
            // strict: both operands are evaluated (left to right) before any check
            let l = eval(x, cx)?;
            let r = eval(y, cx)?;
            bin(*op, l, r, cx)
        }
        E::IsEmpty(x) => match eval(x, cx)? {
            V::Set(s) => Ok(V::Bool(s.is_empty())),
            _ => terr(),
        },
        E::GetAttr(x, a) => match eval(x, cx)? {
            V::Rec(m) => m.get(a).cloned().ok_or(Err::of(Class::NoAttr)),
            V::Euid(u) => match cx.world.entities.get(&u) {
                None => Result::Err(Err::of(Class::NoEntity)),
                Some(d) => d.attrs.get(a).cloned().ok_or(Err::of(Class::NoAttr)),
            },
            _ => terr(),
        },
        E::Has(_, path) if path.len() != 1 => eval(&e.desugar(), cx),
        E::Has(x, path) => {
            let a = &path[0];
            match eval(x, cx)? {
                V::Rec(m) => Ok(V::Bool(m.contains_key(a))),
                V::Euid(u) => Ok(V::Bool(cx.world.entities.get(&u).map(|d| d.attrs.contains_key(a)).unwrap_or(false))),
                _ => terr(),
            }
        }
        E::Like(x, p) => match eval(x, cx)? {
            V::Str(s) => Ok(V::Bool(like(&s, p))),
            _ => terr(),
        },
        E::Is(_, _, Some(_)) => eval(&e.desugar(), cx),
        E::Is(x, t, None) => match eval(x, cx)? {
            V::Euid(u) => Ok(V::Bool(&u.ty == t)),
            _ => terr(),
        },
        E::Set(xs) => {
            let mut s = BTreeSet::new();
            for x in xs {
                s.insert(eval(x, cx)?);
            }
            Ok(V::Set(s))
        }
        E::Rec(fs) => {
            // The language definition evaluates fields in source order; the implementation keeps
            // fields in a key-sorted map. When several fields error with different classes either
            // class is acceptable (see DESIGN §3).
            let mut m = BTreeMap::new();
            let mut errs: Vec<Err> = Vec::new();
            for (k, x) in fs {
                match eval(x, cx) {
                    Ok(v) => {
                        m.insert(k.clone(), v);
                    }
                    Result::Err(er) => errs.push(er),
                }
            }
            if let Some(first) = errs.first() {
                let mut out = first.clone();
                for o in &errs[1..] {
                    if !out.alts.contains(&o.class) && out.class != o.class {
                        out.alts.push(o.class);
                    }
                    for a in &o.alts {
                        if !out.alts.contains(a) && out.class != *a {
                            out.alts.push(*a);
                        }
                    }
                }
                return Result::Err(out);
            }
            Ok(V::Rec(m))
        }
        E::Call(f, xs) => {
            let mut args = Vec::new();
            for x in xs {
                args.push(eval(x, cx)?);
            }
            call_ext(f, &args)
        }
    }
}

fn bin(op: BinOp, l: V, r: V, cx: &Ctx<'_>) -> R {
    let of = || Result::Err(Err::of(Class::Overflow));
    match op {
        BinOp::Eq => Ok(V::Bool(l == r)),
        BinOp::Neq => Ok(V::Bool(l != r)),
        BinOp::Lt | BinOp::Le | BinOp::Gt | BinOp::Ge => {
            let ord = match (&l, &r) {
                (V::Long(a), V::Long(c)) => a.cmp(c),
                (V::Datetime(a), V::Datetime(c)) => a.cmp(c),
                (V::Duration(a), V::Duration(c)) => a.cmp(c),
                _ => return terr(),
            };
            use std::cmp::Ordering::*;
            Ok(V::Bool(match op {
                BinOp::Lt => ord == Less,
                BinOp::Le => ord != Greater,
                BinOp::Gt => ord == Greater,
                _ => ord != Less,
            }))
        }
        BinOp::Add | BinOp::Sub | BinOp::Mul => match (l, r) {
            (V::Long(a), V::Long(c)) => match op {
                BinOp::Add => a.checked_add(c).map(V::Long).map_or_else(of, Ok),
                BinOp::Sub => a.checked_sub(c).map(V::Long).map_or_else(of, Ok),
                _ => a.checked_mul(c).map(V::Long).map_or_else(of, Ok),
            },
            _ => terr(),
        },
        BinOp::In => {
            let V::Euid(a) = l else { return terr() };
            match r {
                V::Euid(c) => Ok(V::Bool(cx.world.is_in(&a, &c))),
                V::Set(s) => {
                    let mut any = false;
                    for x in &s {
                        match x {
                            V::Euid(c) => any = any || cx.world.is_in(&a, c),
                            _ => return terr(),
                        }
                    }
                    Ok(V::Bool(any))
                }
                _ => terr(),
            }
        }
        BinOp::Contains => match l {
            V::Set(s) => Ok(V::Bool(s.contains(&r))),
            _ => terr(),
        },
        BinOp::ContainsAll => match (l, r) {
            (V::Set(a), V::Set(c)) => Ok(V::Bool(c.is_subset(&a))),
            _ => terr(),
        },
        BinOp::ContainsAny => match (l, r) {
            (V::Set(a), V::Set(c)) => Ok(V::Bool(a.intersection(&c).next().is_some())),
            _ => terr(),
        },
        BinOp::GetTag | BinOp::HasTag => {
            let (V::Euid(u), V::Str(k)) = (l, r) else { return terr() };
            match cx.world.entities.get(&u) {
                None => {
                    if op == BinOp::HasTag {
                        Ok(V::Bool(false))
                    } else {
                        Result::Err(Err::of(Class::NoEntity))
                    }
                }
                Some(d) => {
                    if op == BinOp::HasTag {
                        Ok(V::Bool(d.tags.contains_key(&k)))
                    } else {
                        d.tags.get(&k).cloned().ok_or(Err::of(Class::NoAttr))
                    }
                }
            }
        }
    }
}

// ---------------------------------------------------------------------------------------------
// authorization

#[derive(Clone, Copy, Debug, PartialEq, Eq, PartialOrd, Ord, Hash)]
pub enum Outcome {
    Sat,
    Unsat,
    Err,
}

#[derive(Clone, Debug, PartialEq, Eq)]
pub struct AuthzAnswer {
    pub allow: bool,
    pub reasons: BTreeSet<String>,
    pub errors: BTreeSet<String>,
}

/// policies: (id, is_permit, outcome)
pub fn authorize<'a>(policies: impl IntoIterator<Item = (&'a str, bool, Outcome)>) -> AuthzAnswer {
    let mut sat_permit = BTreeSet::new();
    let mut sat_forbid = BTreeSet::new();
    let mut errors = BTreeSet::new();
    for (id, permit, o) in policies {
        match o {
            Outcome::Sat => {
                if permit {
                    sat_permit.insert(id.to_string());
                } else {
                    sat_forbid.insert(id.to_string());
                }
            }
            Outcome::Unsat => {}
            Outcome::Err => {
                errors.insert(id.to_string());
            }
        }
    }
    let allow = !sat_permit.is_empty() && sat_forbid.is_empty();
    let reasons = if !sat_forbid.is_empty() { sat_forbid } else { sat_permit };
    AuthzAnswer { allow, reasons, errors }
}

#[cfg(test)]
mod tests {
    use super::*;
    #[test]
    fn like_works() {
        let p = vec![Pat::Char('a'), Pat::Star, Pat::Char('c')];
        assert!(like("abc", &p));
        assert!(like("ac", &p));
        assert!(!like("ab", &p));
        assert!(like("a*c", &[Pat::Char('a'), Pat::Char('*'), Pat::Char('c')]));
        assert!(!like("abc", &[Pat::Char('a'), Pat::Char('*'), Pat::Char('c')]));
    }
}
