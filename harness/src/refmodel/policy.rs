//! Reference policies, templates and links; evaluation of a policy to an outcome.

use super::*;

#[derive(Clone, Debug, PartialEq, Eq, PartialOrd, Ord, Hash)]
pub enum EntRef {
    Uid(Uid),
    Slot,
}

#[derive(Clone, Debug, PartialEq, Eq, PartialOrd, Ord, Hash)]
pub enum PrC {
    Any,
    Eq(EntRef),
    In(EntRef),
    Is(String),
    IsIn(String, EntRef),
}

impl PrC {
    pub fn has_slot(&self) -> bool {
        matches!(self, PrC::Eq(EntRef::Slot) | PrC::In(EntRef::Slot) | PrC::IsIn(_, EntRef::Slot))
    }
    pub fn subst(&self, u: &Uid) -> PrC {
        let f = |r: &EntRef| match r {
            EntRef::Slot => EntRef::Uid(u.clone()),
            x => x.clone(),
        };
        match self {
            PrC::Any => PrC::Any,
            PrC::Eq(r) => PrC::Eq(f(r)),
            PrC::In(r) => PrC::In(f(r)),
            PrC::Is(t) => PrC::Is(t.clone()),
            PrC::IsIn(t, r) => PrC::IsIn(t.clone(), f(r)),
        }
    }
    /// as an expression over the given variable (slots must have been substituted)
    pub fn to_expr(&self, var: Var) -> E {
        let v = E::Var(var);
        let lit = |r: &EntRef| match r {
            EntRef::Uid(u) => E::Lit(V::Euid(u.clone())),
            EntRef::Slot => panic!("harness: unsubstituted slot"),
        };
        match self {
            PrC::Any => E::bool(true),
            PrC::Eq(r) => E::Bin(BinOp::Eq, b(v), b(lit(r))),
            PrC::In(r) => E::Bin(BinOp::In, b(v), b(lit(r))),
            PrC::Is(t) => E::Is(b(v), t.clone(), None),
            PrC::IsIn(t, r) => E::Is(b(v), t.clone(), Some(b(lit(r)))),
        }
    }
}

#[derive(Clone, Debug, PartialEq, Eq, PartialOrd, Ord, Hash)]
pub enum ActC {
    Any,
    Eq(Uid),
    In(Uid),
    InSet(Vec<Uid>),
}

impl ActC {
    pub fn to_expr(&self) -> E {
        let v = E::Var(Var::Action);
        match self {
            ActC::Any => E::bool(true),
            ActC::Eq(u) => E::Bin(BinOp::Eq, b(v), b(E::Lit(V::Euid(u.clone())))),
            ActC::In(u) => E::Bin(BinOp::In, b(v), b(E::Lit(V::Euid(u.clone())))),
            ActC::InSet(us) => E::Bin(BinOp::In, b(v), b(E::Set(us.iter().map(|u| E::Lit(V::Euid(u.clone()))).collect()))),
        }
    }
}

/// A static policy or (if a scope constraint holds a slot) a template.
#[derive(Clone, Debug, PartialEq, Eq, PartialOrd, Ord, Hash)]
pub struct RPolicy {
    pub permit: bool,
    pub principal: PrC,
    pub action: ActC,
    pub resource: PrC,
    /// (is_when, body)
    pub conds: Vec<(bool, E)>,
    pub annotations: Vec<(String, String)>,
}

impl RPolicy {
    pub fn is_template(&self) -> bool {
        self.principal.has_slot() || self.resource.has_slot()
    }
    /// linking = substitution
    pub fn link(&self, p: Option<&Uid>, r: Option<&Uid>) -> RPolicy {
        let mut out = self.clone();
        if let Some(u) = p {
            out.principal = self.principal.subst(u);
        }
        if let Some(u) = r {
            out.resource = self.resource.subst(u);
        }
        out
    }
    /// the whole policy as one boolean expression (scope && conditions), the language's definition of "satisfied"
    pub fn condition(&self) -> E {
        let mut e = E::And(b(E::And(b(self.principal.to_expr(Var::Principal)), b(self.action.to_expr()))), b(self.resource.to_expr(Var::Resource)));
        for (when, body) in &self.conds {
            let c = if *when { body.clone() } else { E::Not(b(body.clone())) };
            e = E::And(b(e), b(c));
        }
        e
    }
    /// the non-scope part: `c1 && (c2 && (...))` with `unless {b}` read as `!b`; None without conditions
    pub fn non_scope(&self) -> Option<E> {
        let mut it = self.conds.iter().rev().map(|(w, body)| if *w { body.clone() } else { E::Not(b(body.clone())) });
        let last = it.next()?;
        Some(it.fold(last, |acc, prev| E::And(b(prev), b(acc))))
    }
    pub fn outcome(&self, cx: &Ctx<'_>) -> (Outcome, Option<Err>) {
        match eval(&self.condition(), cx) {
            Ok(V::Bool(true)) => (Outcome::Sat, None),
            Ok(V::Bool(false)) => (Outcome::Unsat, None),
            Ok(_) => (Outcome::Err, Some(Err::of(Class::Type))),
            Result::Err(e) => (Outcome::Err, Some(e)),
        }
    }
}
