//! Reference schema model (resolved: no common types, fully-qualified names) and conformance.

use super::*;

#[derive(Clone, Debug, PartialEq, Eq, PartialOrd, Ord, Hash)]
pub enum RType {
    Bool,
    Long,
    Str,
    /// fully-qualified entity type name
    Ent(String),
    Set(Box<RType>),
    /// attribute -> (type, required)
    Rec(BTreeMap<String, (RType, bool)>),
    /// "decimal" | "ipaddr" | "datetime" | "duration"
    Ext(&'static str),
}

pub type RAttrs = BTreeMap<String, (RType, bool)>;

#[derive(Clone, Debug, PartialEq, Eq)]
pub struct REntityType {
    /// fully qualified
    pub name: String,
    pub attrs: RAttrs,
    pub tags: Option<RType>,
    /// fully-qualified names of permitted direct parent types
    pub member_of: Vec<String>,
    pub enum_ids: Option<Vec<String>>,
}

#[derive(Clone, Debug, PartialEq, Eq)]
pub struct RAction {
    /// namespace ("" = none); the action entity type is `<ns>::Action`
    pub ns: String,
    pub id: String,
    pub principals: Vec<String>,
    pub resources: Vec<String>,
    pub context: RAttrs,
    /// parent action groups (uids; possibly of another namespace's `Action` type)
    pub member_of: Vec<Uid>,
}

impl RAction {
    pub fn ty(&self) -> String {
        if self.ns.is_empty() {
            "Action".to_string()
        } else {
            format!("{}::Action", self.ns)
        }
    }
    pub fn uid(&self) -> Uid {
        Uid { ty: self.ty(), id: self.id.clone() }
    }
}

#[derive(Clone, Debug, PartialEq, Eq, Default)]
pub struct RSchema {
    pub entity_types: Vec<REntityType>,
    pub actions: Vec<RAction>,
}

pub fn split_name(q: &str) -> (String, String) {
    match q.rfind("::") {
        Some(i) => (q[..i].to_string(), q[i + 2..].to_string()),
        None => (String::new(), q.to_string()),
    }
}

impl RSchema {
    pub fn et(&self, name: &str) -> Option<&REntityType> {
        self.entity_types.iter().find(|e| e.name == name)
    }
    pub fn action(&self, u: &Uid) -> Option<&RAction> {
        self.actions.iter().find(|a| &a.uid() == u)
    }
    pub fn namespaces(&self) -> BTreeSet<String> {
        let mut s: BTreeSet<String> = self.entity_types.iter().map(|e| split_name(&e.name).0).collect();
        s.extend(self.actions.iter().map(|a| a.ns.clone()));
        s
    }
    /// transitive closure of member_of over types
    pub fn ancestor_types(&self, ty: &str) -> BTreeSet<String> {
        let mut seen = BTreeSet::new();
        let mut st: Vec<String> = self.et(ty).map(|e| e.member_of.clone()).unwrap_or_default();
        while let Some(x) = st.pop() {
            if seen.insert(x.clone()) {
                if let Some(e) = self.et(&x) {
                    st.extend(e.member_of.iter().cloned());
                }
            }
        }
        seen
    }
    pub fn action_ancestors(&self, a: &RAction) -> BTreeSet<Uid> {
        let mut seen = BTreeSet::new();
        let mut st: Vec<Uid> = a.member_of.clone();
        while let Some(u) = st.pop() {
            if seen.insert(u.clone()) {
                if let Some(p) = self.actions.iter().find(|p| p.uid() == u) {
                    st.extend(p.member_of.iter().cloned());
                }
            }
        }
        seen
    }
}

/// Does the value inhabit the type (entity references are checked for type name and enum ids only;
/// they need not have a record in any store)?
pub fn inhabits(v: &V, t: &RType, s: &RSchema) -> bool {
    match (v, t) {
        (V::Bool(_), RType::Bool) | (V::Long(_), RType::Long) | (V::Str(_), RType::Str) => true,
        (V::Euid(u), RType::Ent(n)) => {
            &u.ty == n
                && match s.et(n).and_then(|e| e.enum_ids.as_ref()) {
                    Some(ids) => ids.contains(&u.id),
                    None => true,
                }
        }
        (V::Set(xs), RType::Set(el)) => xs.iter().all(|x| inhabits(x, el, s)),
        (V::Rec(m), RType::Rec(attrs)) => inhabits_attrs(m, attrs, s),
        (V::Decimal(_), RType::Ext("decimal")) | (V::Ip(_), RType::Ext("ipaddr")) | (V::Datetime(_), RType::Ext("datetime")) | (V::Duration(_), RType::Ext("duration")) => true,
        _ => false,
    }
}

pub fn inhabits_attrs(m: &BTreeMap<String, V>, attrs: &RAttrs, s: &RSchema) -> bool {
    m.iter().all(|(k, v)| attrs.get(k).map(|(t, _)| inhabits(v, t, s)).unwrap_or(false)) && attrs.iter().all(|(k, (_, req))| !*req || m.contains_key(k))
}
