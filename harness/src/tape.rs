//! Choice tape: the only source of randomness in any generator.
//!
//! A tape is a `Vec<u32>` with a cursor. An exhausted tape yields 0 and every
//! generator is written so that 0 selects the simplest alternative, hence
//! generation always terminates and a shorter / smaller tape is a simpler case.
//! proptest generates and shrinks the word vector; libFuzzer mutates it as bytes.

#[derive(Clone, Debug)]
pub struct Tape {
    words: Vec<u32>,
    pos: usize,
}

impl Tape {
    pub fn new(words: Vec<u32>) -> Self {
        Tape { words, pos: 0 }
    }

    pub fn from_bytes(b: &[u8]) -> Self {
        let words = b
            .chunks(4)
            .map(|c| {
                let mut a = [0u8; 4];
                a[..c.len()].copy_from_slice(c);
                u32::from_le_bytes(a)
            })
            .collect();
        Tape { words, pos: 0 }
    }

    pub fn words(&self) -> &[u32] {
        &self.words
    }

    pub fn used(&self) -> usize {
        self.pos.min(self.words.len())
    }

    pub fn exhausted(&self) -> bool {
        self.pos >= self.words.len()
    }

    #[inline]
    pub fn next(&mut self) -> u32 {
        let w = self.words.get(self.pos).copied().unwrap_or(0);
        self.pos += 1;
        w
    }

    /// Uniform in `0..n` (n>0), monotone in the tape word so that shrinking a
    /// word towards 0 shrinks the choice towards 0.
    #[inline]
    pub fn below(&mut self, n: u32) -> u32 {
        if n <= 1 {
            // still consume nothing: a forced choice costs no tape
            return 0;
        }
        ((self.next() as u64 * n as u64) >> 32) as u32
    }

    #[inline]
    pub fn upto(&mut self, n: usize) -> usize {
        self.below(n as u32) as usize
    }

    /// Inclusive range.
    pub fn range(&mut self, lo: i64, hi: i64) -> i64 {
        debug_assert!(lo <= hi);
        let span = (hi - lo) as u64 + 1;
        if span > u32::MAX as u64 {
            let w = ((self.next() as u64) << 32) | self.next() as u64;
            lo.wrapping_add(((w as u128 * span as u128) >> 64) as i64)
        } else {
            lo + self.below(span as u32) as i64
        }
    }

    /// `true` with probability num/den; an exhausted tape gives `false`.
    #[inline]
    pub fn bool_p(&mut self, num: u32, den: u32) -> bool {
        // high words => true so that 0 => false
        self.below(den) >= den - num
    }

    pub fn coin(&mut self) -> bool {
        self.bool_p(1, 2)
    }

    pub fn pick<'a, T>(&mut self, xs: &'a [T]) -> &'a T {
        &xs[self.upto(xs.len())]
    }

    /// Index chosen with the given weights; index 0 is the "simplest".
    pub fn weighted(&mut self, ws: &[u32]) -> usize {
        let total: u32 = ws.iter().sum();
        let mut x = self.below(total.max(1));
        for (i, w) in ws.iter().enumerate() {
            if x < *w {
                return i;
            }
            x -= *w;
        }
        0
    }

    /// Boundary-biased i64.
    pub fn i64_edgy(&mut self) -> i64 {
        const EDGES: [i64; 20] = [
            0,
            1,
            -1,
            2,
            -2,
            i64::MAX,
            i64::MIN,
            i64::MAX - 1,
            i64::MIN + 1,
            1 << 31,
            1 << 32,
            -(1 << 31),
            (1 << 31) - 1,
            10,
            100,
            -100,
            i64::MAX / 2,
            i64::MIN / 2,
            i64::MAX / 2 + 1,
            3037000500, // ~sqrt(i64::MAX)
        ];
        match self.weighted(&[5, 4, 1]) {
            0 => self.range(-5, 5),
            1 => *self.pick(&EDGES),
            _ => {
                let hi = self.next() as u64;
                let lo = self.next() as u64;
                ((hi << 32) | lo) as i64
            }
        }
    }

    pub fn small(&mut self, max: usize) -> usize {
        self.upto(max + 1)
    }

    /// A vector length in 0..=max, biased to small values.
    pub fn len_biased(&mut self, max: usize) -> usize {
        if max == 0 {
            return 0;
        }
        let a = self.upto(max + 1);
        let b = self.upto(max + 1);
        a.min(b)
    }

    /// A permutation of 0..n (Fisher–Yates driven by the tape; all-zero tape = identity).
    pub fn permutation(&mut self, n: usize) -> Vec<usize> {
        let mut v: Vec<usize> = (0..n).collect();
        for i in 0..n {
            let j = i + self.upto(n - i);
            v.swap(i, j);
        }
        v
    }

    /// A subset of 0..n where each element is kept with probability num/den.
    pub fn subset(&mut self, n: usize, num: u32, den: u32) -> Vec<usize> {
        (0..n).filter(|_| self.bool_p(num, den)).collect()
    }
}

#[cfg(test)]
mod tests {
    use super::*;
    #[test]
    fn zero_tape_is_simple() {
        let mut t = Tape::new(vec![]);
        assert_eq!(t.below(10), 0);
        assert!(!t.coin());
        assert_eq!(t.weighted(&[1, 2, 3]), 0);
        assert_eq!(t.permutation(4), vec![0, 1, 2, 3]);
    }
    #[test]
    fn below_monotone() {
        let mut prev = 0;
        for w in (0..=u32::MAX).step_by(65537) {
            let mut t = Tape::new(vec![w]);
            let x = t.below(7);
            assert!(x >= prev && x < 7);
            prev = x;
        }
    }
}
