//! Reference objects -> Cedar policy text, with meaning-preserving spelling choices driven by an
//! optional tape (None = canonical minimal spelling).

use crate::refmodel::*;
use crate::tape::Tape;

pub const RESERVED: [&str; 12] = ["true", "false", "if", "then", "else", "in", "is", "like", "has", "__cedar", "principal", "action"];

pub fn is_ident(s: &str) -> bool {
    let mut cs = s.chars();
    match cs.next() {
        Some(c) if c == '_' || c.is_ascii_alphabetic() => {}
        _ => return false,
    }
    cs.all(|c| c == '_' || c.is_ascii_alphanumeric())
}

/// usable after `.` / `has` / as a record key without quotes
pub fn is_plain_attr(s: &str) -> bool {
    is_ident(s) && !RESERVED.contains(&s) && s != "resource" && s != "context"
}

pub struct Style<'a> {
    pub tape: Option<&'a mut Tape>,
    /// wrap every composite subexpression in parentheses
    pub full_parens: bool,
}

impl<'a> Style<'a> {
    pub fn canonical() -> Style<'static> {
        Style { tape: None, full_parens: false }
    }
    pub fn full() -> Style<'static> {
        Style { tape: None, full_parens: true }
    }
    pub fn random(t: &'a mut Tape) -> Style<'a> {
        Style { tape: Some(t), full_parens: false }
    }
    pub fn chance(&mut self, num: u32, den: u32) -> bool {
        match &mut self.tape {
            Some(t) => t.bool_p(num, den),
            None => false,
        }
    }
    fn pick(&mut self, n: usize) -> usize {
        match &mut self.tape {
            Some(t) => t.upto(n),
            None => 0,
        }
    }
}

/// Escape one char for a Cedar string literal / entity id (pattern=false) or pattern literal.
fn esc_char(c: char, out: &mut String, st: &mut Style<'_>, pattern: bool) {
    let must = matches!(c, '"' | '\\') || (pattern && c == '*') || (c as u32) < 0x20 || c == '\u{7f}';
    let choice = if must { 1 + st.pick(2) } else if st.chance(1, 6) { 1 + st.pick(2) } else { 0 };
    if pattern && c == '*' {
        out.push_str("\\*");
        return;
    }
    match choice {
        0 => out.push(c),
        1 => match c {
            // shortest named escape when one exists
            '\n' => out.push_str("\\n"),
            '\r' => out.push_str("\\r"),
            '\t' => out.push_str("\\t"),
            '\0' => out.push_str("\\0"),
            '\\' => out.push_str("\\\\"),
            '"' => out.push_str("\\\""),
            '\'' => out.push_str("\\'"),
            _ => out.push_str(&format!("\\u{{{:x}}}", c as u32)),
        },
        _ => {
            if (c as u32) < 0x80 && st.chance(1, 2) {
                out.push_str(&format!("\\x{:02x}", c as u32));
            } else {
                out.push_str(&format!("\\u{{{:X}}}", c as u32));
            }
        }
    }
}

pub fn str_lit(s: &str, st: &mut Style<'_>) -> String {
    let mut out = String::from("\"");
    for c in s.chars() {
        esc_char(c, &mut out, st, false);
    }
    out.push('"');
    out
}

pub fn pattern_lit(p: &[Pat], st: &mut Style<'_>) -> String {
    let mut out = String::from("\"");
    for e in p {
        match e {
            Pat::Star => out.push('*'),
            Pat::Char(c) => esc_char(*c, &mut out, st, true),
        }
    }
    out.push('"');
    out
}

pub fn uid(u: &Uid, st: &mut Style<'_>) -> String {
    format!("{}::{}", u.ty, str_lit(&u.id, st))
}

fn is_method(f: &str) -> bool {
    !is_constructor(f)
}

// precedence levels
const L_IF: u8 = 0;
const L_OR: u8 = 1;
const L_AND: u8 = 2;
const L_REL: u8 = 3;
const L_ADD: u8 = 4;
const L_MUL: u8 = 5;
const L_UNARY: u8 = 6;
const L_MEMBER: u8 = 7;
const L_PRIMARY: u8 = 8;

pub fn expr(e: &E, st: &mut Style<'_>) -> String {
    pr(e, L_IF, st)
}

fn attr_access(a: &str, st: &mut Style<'_>) -> String {
    if is_plain_attr(a) && !st.chance(1, 5) {
        format!(".{a}")
    } else {
        format!("[{}]", str_lit(a, st))
    }
}

fn rec_key(a: &str, st: &mut Style<'_>) -> String {
    if is_plain_attr(a) && !st.chance(1, 4) {
        a.to_string()
    } else {
        str_lit(a, st)
    }
}

fn sp(st: &mut Style<'_>) -> &'static str {
    match st.pick(12) {
        0..=8 => " ",
        9 => "  ",
        10 => "\n  ",
        _ => " // c\n ",
    }
}

/// (text, natural level)
fn pr0(e: &E, st: &mut Style<'_>) -> (String, u8) {
    match e {
        E::Lit(V::Bool(x)) => (x.to_string(), L_PRIMARY),
        E::Lit(V::Long(i)) => {
            if *i < 0 {
                (format!("-{}", (*i as i128).unsigned_abs()), L_UNARY)
            } else {
                (i.to_string(), L_PRIMARY)
            }
        }
        E::Lit(V::Str(s)) => (str_lit(s, st), L_PRIMARY),
        E::Lit(V::Euid(u)) => (uid(u, st), L_PRIMARY),
        E::Lit(other) => pr0(&value_expr(other), st),
        E::Var(v) => (v.name().to_string(), L_PRIMARY),
        E::If(c, a, x) => (format!("if {} then {} else {}", pr(c, L_IF, st), pr(a, L_IF, st), pr(x, L_IF, st)), L_IF),
        E::Or(a, x) => (format!("{} ||{}{}", pr(a, L_OR, st), sp(st), pr(x, L_AND, st)), L_OR),
        E::And(a, x) => (format!("{} &&{}{}", pr(a, L_AND, st), sp(st), pr(x, L_REL, st)), L_AND),
        E::Bin(op, a, x) => match op {
            BinOp::Eq | BinOp::Neq | BinOp::Lt | BinOp::Le | BinOp::Gt | BinOp::Ge | BinOp::In => {
                let o = match op {
                    BinOp::Eq => "==",
                    BinOp::Neq => "!=",
                    BinOp::Lt => "<",
                    BinOp::Le => "<=",
                    BinOp::Gt => ">",
                    BinOp::Ge => ">=",
                    _ => "in",
                };
                (format!("{} {o} {}", pr(a, L_ADD, st), pr(x, L_ADD, st)), L_REL)
            }
            BinOp::Add => (format!("{} + {}", pr(a, L_ADD, st), pr(x, L_MUL, st)), L_ADD),
            BinOp::Sub => (format!("{} - {}", pr(a, L_ADD, st), pr(x, L_MUL, st)), L_ADD),
            BinOp::Mul => (format!("{} * {}", pr(a, L_MUL, st), pr(x, L_UNARY, st)), L_MUL),
            BinOp::Contains | BinOp::ContainsAll | BinOp::ContainsAny | BinOp::GetTag | BinOp::HasTag => {
                let m = match op {
                    BinOp::Contains => "contains",
                    BinOp::ContainsAll => "containsAll",
                    BinOp::ContainsAny => "containsAny",
                    BinOp::GetTag => "getTag",
                    _ => "hasTag",
                };
                (format!("{}.{m}({})", pr(a, L_MEMBER, st), pr(x, L_IF, st)), L_MEMBER)
            }
        },
        E::Not(_) => {
            // collapse chains of up to 4
            let mut n = 0;
            let mut cur = e;
            while let E::Not(x) = cur {
                if n == 4 {
                    break;
                }
                n += 1;
                cur = x;
                if !st.chance(2, 3) && st.tape.is_some() {
                    break;
                }
            }
            (format!("{}{}", "!".repeat(n), pr(cur, L_MEMBER, st)), L_UNARY)
        }
        E::Neg(x) => {
            // `-N` with a bare numeric literal would be folded into a negative literal by the parser
            let inner = match &**x {
                E::Lit(V::Long(i)) if *i >= 0 => format!("({i})"),
                _ => pr(x, L_MEMBER, st),
            };
            (format!("-{inner}"), L_UNARY)
        }
        E::IsEmpty(x) => (format!("{}.isEmpty()", pr(x, L_MEMBER, st)), L_MEMBER),
        E::GetAttr(x, a) => (format!("{}{}", pr(x, L_MEMBER, st), attr_access(a, st)), L_MEMBER),
        E::Has(x, path) => {
            let p = if path.len() == 1 {
                if is_plain_attr(&path[0]) && !st.chance(1, 4) {
                    path[0].clone()
                } else {
                    str_lit(&path[0], st)
                }
            } else {
                path.join(".")
            };
            (format!("{} has {p}", pr(x, L_ADD, st)), L_REL)
        }
        E::Like(x, p) => (format!("{} like {}", pr(x, L_ADD, st), pattern_lit(p, st)), L_REL),
        E::Is(x, t, None) => (format!("{} is {t}", pr(x, L_ADD, st)), L_REL),
        E::Is(x, t, Some(y)) => (format!("{} is {t} in {}", pr(x, L_ADD, st), pr(y, L_ADD, st)), L_REL),
        E::Set(xs) => {
            let items: Vec<String> = xs.iter().map(|x| pr(x, L_IF, st)).collect();
            let trail = if !items.is_empty() && st.chance(1, 8) { "," } else { "" };
            (format!("[{}{trail}]", items.join(", ")), L_PRIMARY)
        }
        E::Rec(fs) => {
            let items: Vec<String> = fs.iter().map(|(k, x)| format!("{}: {}", rec_key(k, st), pr(x, L_IF, st))).collect();
            let trail = if !items.is_empty() && st.chance(1, 8) { "," } else { "" };
            (format!("{{{}{trail}}}", items.join(", ")), L_PRIMARY)
        }
        E::Call(f, xs) => {
            if is_method(f) && !xs.is_empty() {
                let args: Vec<String> = xs[1..].iter().map(|x| pr(x, L_IF, st)).collect();
                let trail = if !args.is_empty() && st.chance(1, 8) { "," } else { "" };
                (format!("{}.{f}({}{trail})", pr(&xs[0], L_MEMBER, st), args.join(", ")), L_MEMBER)
            } else {
                let args: Vec<String> = xs.iter().map(|x| pr(x, L_IF, st)).collect();
                let trail = if !args.is_empty() && st.chance(1, 8) { "," } else { "" };
                (format!("{f}({}{trail})", args.join(", ")), L_PRIMARY)
            }
        }
    }
}

fn pr(e: &E, min: u8, st: &mut Style<'_>) -> String {
    let (s, lvl) = pr0(e, st);
    let composite = lvl < L_PRIMARY;
    let mut s = if lvl < min || (st.full_parens && composite) { format!("({s})") } else { s };
    // redundant parentheses
    while st.chance(1, 12) {
        s = format!("({s})");
    }
    s
}

/// An expression that evaluates to the given value (datetime via epoch offset).
pub fn value_expr(v: &V) -> E {
    match v {
        V::Bool(_) | V::Long(_) | V::Str(_) | V::Euid(_) => E::Lit(v.clone()),
        V::Set(s) => E::Set(s.iter().map(value_expr).collect()),
        V::Rec(m) => E::Rec(m.iter().map(|(k, v)| (k.clone(), value_expr(v))).collect()),
        V::Decimal(d) => E::Call("decimal".into(), vec![E::str(&ext::decimal_canonical(*d))]),
        V::Ip(ip) => E::Call("ip".into(), vec![E::str(&ip.spelling())]),
        V::Duration(ms) => E::Call("duration".into(), vec![E::str(&ext::duration_spelling(*ms))]),
        V::Datetime(ms) => E::Call(
            "offset".into(),
            vec![E::Call("datetime".into(), vec![E::str("1970-01-01")]), E::Call("duration".into(), vec![E::str(&ext::duration_spelling(*ms))])],
        ),
    }
}

pub fn value(v: &V) -> String {
    expr(&value_expr(v), &mut Style::canonical())
}
