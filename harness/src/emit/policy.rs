//! Reference policies -> Cedar text and JSON (EST) documents.

use super::{est, text};
use crate::refmodel::policy::*;
use crate::refmodel::*;
use serde_json::{json, Map, Value as J};

fn entref_text(r: &EntRef, slot: &str, st: &mut text::Style<'_>) -> String {
    match r {
        EntRef::Uid(u) => text::uid(u, st),
        EntRef::Slot => slot.to_string(),
    }
}

pub fn prc_text(var: &str, c: &PrC, st: &mut text::Style<'_>) -> String {
    let slot = format!("?{var}");
    match c {
        PrC::Any => var.to_string(),
        PrC::Eq(r) => format!("{var} == {}", entref_text(r, &slot, st)),
        PrC::In(r) => format!("{var} in {}", entref_text(r, &slot, st)),
        PrC::Is(t) => format!("{var} is {t}"),
        PrC::IsIn(t, r) => format!("{var} is {t} in {}", entref_text(r, &slot, st)),
    }
}

pub fn actc_text(c: &ActC, st: &mut text::Style<'_>) -> String {
    match c {
        ActC::Any => "action".to_string(),
        ActC::Eq(u) => format!("action == {}", text::uid(u, st)),
        ActC::In(u) => format!("action in {}", text::uid(u, st)),
        ActC::InSet(us) => format!("action in [{}]", us.iter().map(|u| text::uid(u, st)).collect::<Vec<_>>().join(", ")),
    }
}

pub fn annotation_key_ok(k: &str) -> bool {
    text::is_ident(k)
}

pub fn policy_text(p: &RPolicy, st: &mut text::Style<'_>) -> String {
    let mut s = String::new();
    for (k, v) in &p.annotations {
        if v.is_empty() && st.tape.as_mut().map(|t| t.coin()).unwrap_or(false) {
            s.push_str(&format!("@{k}\n"));
        } else {
            s.push_str(&format!("@{k}({})\n", text::str_lit(v, st)));
        }
    }
    s.push_str(if p.permit { "permit" } else { "forbid" });
    let trail = if st.chance(1, 8) { "," } else { "" };
    s.push_str(&format!("({}, {}, {}{trail})", prc_text("principal", &p.principal, st), actc_text(&p.action, st), prc_text("resource", &p.resource, st)));
    for (when, body) in &p.conds {
        s.push_str(&format!(" {} {{ {} }}", if *when { "when" } else { "unless" }, text::expr(body, st)));
    }
    s.push(';');
    s
}

fn entref_json(r: &EntRef, slot: &str) -> (String, J) {
    match r {
        EntRef::Uid(u) => ("entity".to_string(), json!({"type": u.ty, "id": u.id})),
        EntRef::Slot => ("slot".to_string(), json!(slot)),
    }
}

pub fn prc_json(var: &str, c: &PrC) -> J {
    let slot = format!("?{var}");
    let mut m = Map::new();
    match c {
        PrC::Any => {
            m.insert("op".into(), json!("All"));
        }
        PrC::Eq(r) => {
            m.insert("op".into(), json!("=="));
            let (k, v) = entref_json(r, &slot);
            m.insert(k, v);
        }
        PrC::In(r) => {
            m.insert("op".into(), json!("in"));
            let (k, v) = entref_json(r, &slot);
            m.insert(k, v);
        }
        PrC::Is(t) => {
            m.insert("op".into(), json!("is"));
            m.insert("entity_type".into(), json!(t));
        }
        PrC::IsIn(t, r) => {
            m.insert("op".into(), json!("is"));
            m.insert("entity_type".into(), json!(t));
            let (k, v) = entref_json(r, &slot);
            m.insert("in".into(), json!({ k: v }));
        }
    }
    J::Object(m)
}

pub fn actc_json(c: &ActC) -> J {
    let ent = |u: &Uid| json!({"type": u.ty, "id": u.id});
    match c {
        ActC::Any => json!({"op": "All"}),
        ActC::Eq(u) => json!({"op": "==", "entity": ent(u)}),
        ActC::In(u) => json!({"op": "in", "entity": ent(u)}),
        ActC::InSet(us) => json!({"op": "in", "entities": us.iter().map(ent).collect::<Vec<_>>()}),
    }
}

pub fn policy_json(p: &RPolicy) -> J {
    let mut ann = Map::new();
    for (k, v) in &p.annotations {
        ann.insert(k.clone(), json!(v));
    }
    let mut m = Map::new();
    m.insert("effect".into(), json!(if p.permit { "permit" } else { "forbid" }));
    m.insert("principal".into(), prc_json("principal", &p.principal));
    m.insert("action".into(), actc_json(&p.action));
    m.insert("resource".into(), prc_json("resource", &p.resource));
    m.insert("conditions".into(), J::Array(p.conds.iter().map(|(w, b)| json!({"kind": if *w { "when" } else { "unless" }, "body": est::expr(b)})).collect()));
    if !ann.is_empty() {
        m.insert("annotations".into(), J::Object(ann));
    }
    J::Object(m)
}
