pub mod est;
pub mod text;
