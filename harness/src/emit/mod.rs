pub mod est;
pub mod policy;
pub mod schema;
pub mod text;
