pub mod est;
pub mod policy;
pub mod text;
