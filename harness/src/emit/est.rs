//! Reference expressions -> JSON policy format (EST), written from the documented JSON policy format.

use crate::refmodel::*;
use serde_json::{json, Map, Value as J};

pub fn uid_json(u: &Uid) -> J {
    json!({"__entity": {"type": u.ty, "id": u.id}})
}

fn bin(op: &str, a: &E, b: &E) -> J {
    json!({ op: {"left": expr(a), "right": expr(b)} })
}

pub fn pattern(p: &[Pat]) -> J {
    // adjacent literal chars may be merged into one literal string or kept apart; keep apart (simplest)
    J::Array(
        p.iter()
            .map(|e| match e {
                Pat::Star => json!("Wildcard"),
                Pat::Char(c) => json!({"Literal": c.to_string()}),
            })
            .collect(),
    )
}

pub fn expr(e: &E) -> J {
    match e {
        E::Lit(V::Bool(b)) => json!({"Value": b}),
        E::Lit(V::Long(i)) => json!({"Value": i}),
        E::Lit(V::Str(s)) => json!({"Value": s}),
        E::Lit(V::Euid(u)) => json!({"Value": uid_json(u)}),
        E::Lit(other) => expr(&crate::emit::text::value_expr(other)),
        E::Var(v) => json!({"Var": v.name()}),
        E::If(c, a, b) => json!({"if-then-else": {"if": expr(c), "then": expr(a), "else": expr(b)}}),
        E::And(a, b) => bin("&&", a, b),
        E::Or(a, b) => bin("||", a, b),
        E::Not(a) => json!({"!": {"arg": expr(a)}}),
        E::Neg(a) => json!({"neg": {"arg": expr(a)}}),
        E::Bin(op, a, b) => bin(
            match op {
                BinOp::Eq => "==",
                BinOp::Neq => "!=",
                BinOp::Lt => "<",
                BinOp::Le => "<=",
                BinOp::Gt => ">",
                BinOp::Ge => ">=",
                BinOp::Add => "+",
                BinOp::Sub => "-",
                BinOp::Mul => "*",
                BinOp::In => "in",
                BinOp::Contains => "contains",
                BinOp::ContainsAll => "containsAll",
                BinOp::ContainsAny => "containsAny",
                BinOp::GetTag => "getTag",
                BinOp::HasTag => "hasTag",
            },
            a,
            b,
        ),
        E::IsEmpty(a) => json!({"isEmpty": {"arg": expr(a)}}),
        E::GetAttr(a, n) => json!({".": {"left": expr(a), "attr": n}}),
        E::Has(a, path) => {
            if path.len() == 1 {
                json!({"has": {"left": expr(a), "attr": path[0]}})
            } else {
                json!({"has": {"left": expr(a), "attr": path}})
            }
        }
        E::Like(a, p) => json!({"like": {"left": expr(a), "pattern": pattern(p)}}),
        E::Is(a, t, None) => json!({"is": {"left": expr(a), "entity_type": t}}),
        E::Is(a, t, Some(b)) => json!({"is": {"left": expr(a), "entity_type": t, "in": expr(b)}}),
        E::Set(xs) => json!({"Set": xs.iter().map(expr).collect::<Vec<_>>()}),
        E::Rec(fs) => {
            let mut m = Map::new();
            for (k, v) in fs {
                m.insert(k.clone(), expr(v));
            }
            json!({"Record": J::Object(m)})
        }
        E::Call(f, xs) => json!({ f.as_str(): xs.iter().map(expr).collect::<Vec<_>>() }),
    }
}

/// `permit|forbid (principal, action, resource) when|unless { e };` as a JSON policy
pub fn policy_with_condition(permit: bool, when: bool, e: &E) -> J {
    json!({
        "effect": if permit { "permit" } else { "forbid" },
        "principal": {"op": "All"},
        "action": {"op": "All"},
        "resource": {"op": "All"},
        "conditions": [ {"kind": if when { "when" } else { "unless" }, "body": expr(e)} ],
    })
}
