//! Reference schemas -> JSON schema syntax and Cedar schema syntax. Optional common types and layout
//! choices are driven by a tape (None = canonical).

use super::text;
use crate::refmodel::schema::*;
use crate::tape::Tape;
use serde_json::{json, Map, Value as J};
use std::collections::BTreeMap;

fn ext_cedar_name(n: &str) -> &str {
    n
}

/// A common type: (namespace it is declared in, name, the type it stands for)
pub type Common = (String, String, RType);

thread_local! {
    static COMMONS: std::cell::RefCell<Vec<Common>> = const { std::cell::RefCell::new(Vec::new()) };
}

/// Run `f` with the given common types available to the type printers: a type equal to a common type
/// declared in the namespace being printed is (with probability 1/2, tape-driven) written as a reference.
pub fn with_commons<T>(commons: &[Common], f: impl FnOnce() -> T) -> T {
    COMMONS.with(|c| *c.borrow_mut() = commons.to_vec());
    let r = f();
    COMMONS.with(|c| c.borrow_mut().clear());
    r
}

fn common_ref(ty: &RType, ns: &str, t: &mut Option<&mut Tape>) -> Option<String> {
    let hit = COMMONS.with(|c| c.borrow().iter().find(|(cns, _, cty)| cns == ns && cty == ty).map(|(_, n, _)| n.clone()));
    match hit {
        Some(n) if t.as_mut().map(|t| t.coin()).unwrap_or(false) => Some(n),
        _ => None,
    }
}

thread_local! {
    /// fully qualified names of the entity and common types declared by the schema being printed
    static DECLARED: std::cell::RefCell<std::collections::BTreeSet<String>> = const { std::cell::RefCell::new(std::collections::BTreeSet::new()) };
}

thread_local! {
    /// Some(salt): annotate declarations; which ones is a function of (salt, declared name) so that the JSON and the
    /// Cedar rendering of one schema carry the same annotations
    static ANNOTATE: std::cell::Cell<Option<u32>> = const { std::cell::Cell::new(None) };
}

/// Run `f` with schema annotations switched on.
pub fn with_annotations<T>(salt: u32, f: impl FnOnce() -> T) -> T {
    ANNOTATE.with(|a| a.set(Some(salt)));
    let r = f();
    ANNOTATE.with(|a| a.set(None));
    r
}

/// the annotations of the declaration called `name` (empty unless switched on)
fn annotations_of(name: &str) -> Vec<(&'static str, &'static str)> {
    let Some(salt) = ANNOTATE.with(|a| a.get()) else { return vec![] };
    let mut h: u32 = salt ^ 0x9e37_79b9;
    for b in name.bytes() {
        h = h.rotate_left(5) ^ (b as u32);
        h = h.wrapping_mul(0x0100_0193);
    }
    const KEYS: [&str; 4] = ["doc", "note", "x1", "in"];
    const VALS: [&str; 5] = ["", "text", "two words", "quo\"te", "ünï \u{1F600}"];
    match h % 6 {
        0 => vec![(KEYS[(h >> 8) as usize % 4], VALS[(h >> 16) as usize % 5])],
        1 if (h >> 4) % 2 == 0 => vec![("doc", VALS[(h >> 16) as usize % 5]), ("note", VALS[(h >> 20) as usize % 5])],
        _ => vec![],
    }
}

fn annotations_cedar(name: &str, indent: &str) -> String {
    annotations_of(name).iter().map(|(k, v)| if v.is_empty() { format!("{indent}@{k}\n") } else { format!("{indent}@{k}({})\n", text::str_lit(v, &mut text::Style::canonical())) }).collect()
}

fn annotate_json(name: &str, m: &mut Map<String, J>) {
    let a = annotations_of(name);
    if !a.is_empty() {
        let mut am = Map::new();
        for (k, v) in a {
            am.insert(k.to_string(), json!(v));
        }
        m.insert("annotations".into(), J::Object(am));
    }
}

fn set_declared(s: &RSchema) {
    let mut d: std::collections::BTreeSet<String> = s.entity_types.iter().map(|e| e.name.clone()).collect();
    COMMONS.with(|c| {
        for (ns, n, _) in c.borrow().iter() {
            d.insert(if ns.is_empty() { n.clone() } else { format!("{ns}::{n}") });
        }
    });
    DECLARED.with(|x| *x.borrow_mut() = d);
}

/// the name of a built-in (primitive or extension) type as it must be written inside namespace `ns` where unqualified
/// names resolve to declared types first: `__cedar::B` when shadowed, and at random otherwise
fn builtin_name(base: &str, ns: &str, t: &mut Option<&mut Tape>) -> String {
    let shadowed = DECLARED.with(|d| {
        let d = d.borrow();
        d.contains(base) || (!ns.is_empty() && d.contains(&format!("{ns}::{base}")))
    });
    if shadowed || t.as_mut().map(|t| t.bool_p(1, 8)).unwrap_or(false) {
        format!("__cedar::{base}")
    } else {
        base.to_string()
    }
}

fn commons_in(ns: &str) -> Vec<Common> {
    COMMONS.with(|c| c.borrow().iter().filter(|(cns, _, _)| cns == ns).cloned().collect())
}

/// name of `q` as written from inside namespace `ns` (fully qualified unless the tape says otherwise)
fn rel_name(q: &str, ns: &str, t: &mut Option<&mut Tape>) -> String {
    let (qns, base) = split_name(q);
    if qns == ns && !qns.is_empty() && t.as_mut().map(|t| t.coin()).unwrap_or(false) {
        base
    } else if qns == ns && qns.is_empty() {
        base
    } else {
        q.to_string()
    }
}

pub fn type_json(ty: &RType, ns: &str, t: &mut Option<&mut Tape>) -> J {
    if let Some(n) = common_ref(ty, ns, t) {
        return if t.as_mut().map(|t| t.coin()).unwrap_or(false) { json!({"type": "EntityOrCommon", "name": n}) } else { json!({"type": n}) };
    }
    match ty {
        RType::Bool | RType::Long | RType::Str if t.as_mut().map(|t| t.bool_p(1, 6)).unwrap_or(false) => {
            let base = match ty {
                RType::Bool => "Bool",
                RType::Long => "Long",
                _ => "String",
            };
            json!({"type": "EntityOrCommon", "name": builtin_name(base, ns, t)})
        }
        RType::Bool => json!({"type": "Boolean"}),
        RType::Long => json!({"type": "Long"}),
        RType::Str => json!({"type": "String"}),
        RType::Ent(n) => {
            if t.as_mut().map(|t| t.bool_p(1, 3)).unwrap_or(false) {
                json!({"type": "EntityOrCommon", "name": rel_name(n, ns, t)})
            } else {
                json!({"type": "Entity", "name": rel_name(n, ns, t)})
            }
        }
        RType::Set(el) => json!({"type": "Set", "element": type_json(el, ns, t)}),
        RType::Rec(attrs) => json!({"type": "Record", "attributes": attrs_json(attrs, ns, t)}),
        RType::Ext(n) => {
            if t.as_mut().map(|t| t.bool_p(1, 3)).unwrap_or(false) {
                json!({"type": "EntityOrCommon", "name": builtin_name(n, ns, t)})
            } else {
                json!({"type": "Extension", "name": *n})
            }
        }
    }
}

pub fn attrs_json(attrs: &RAttrs, ns: &str, t: &mut Option<&mut Tape>) -> J {
    let mut m = Map::new();
    for (k, (ty, req)) in attrs {
        let mut tj = type_json(ty, ns, t);
        if !*req {
            tj.as_object_mut().unwrap().insert("required".into(), json!(false));
        } else if t.as_mut().map(|t| t.bool_p(1, 4)).unwrap_or(false) {
            tj.as_object_mut().unwrap().insert("required".into(), json!(true));
        }
        annotate_json(&format!("attr:{k}"), tj.as_object_mut().unwrap());
        m.insert(k.clone(), tj);
    }
    J::Object(m)
}

pub fn schema_json(s: &RSchema, mut t: Option<&mut Tape>) -> J {
    set_declared(s);
    let mut out = Map::new();
    for ns in s.namespaces() {
        let mut ets = Map::new();
        for e in s.entity_types.iter().filter(|e| split_name(&e.name).0 == ns) {
            let base = split_name(&e.name).1;
            let mut m = Map::new();
            if let Some(ids) = &e.enum_ids {
                m.insert("enum".into(), json!(ids));
            } else {
                if !e.member_of.is_empty() || t.as_mut().map(|t| t.bool_p(1, 4)).unwrap_or(false) {
                    m.insert("memberOfTypes".into(), J::Array(e.member_of.iter().map(|p| json!(rel_name(p, &ns, &mut t))).collect()));
                }
                if !e.attrs.is_empty() || t.as_mut().map(|t| t.bool_p(1, 4)).unwrap_or(false) {
                    m.insert("shape".into(), json!({"type": "Record", "attributes": attrs_json(&e.attrs, &ns, &mut t)}));
                }
                if let Some(tt) = &e.tags {
                    m.insert("tags".into(), type_json(tt, &ns, &mut t));
                }
            }
            annotate_json(&e.name, &mut m);
            ets.insert(base, J::Object(m));
        }
        let mut acts = Map::new();
        for a in s.actions.iter().filter(|a| a.ns == ns) {
            let mut m = Map::new();
            if !a.member_of.is_empty() {
                m.insert(
                    "memberOf".into(),
                    J::Array(a.member_of.iter().map(|g| if g.ty == a.ty() && !t.as_mut().map(|t| t.bool_p(1, 4)).unwrap_or(false) { json!({"id": g.id}) } else { json!({"id": g.id, "type": g.ty}) }).collect()),
                );
            }
            if !(a.principals.is_empty() && a.resources.is_empty()) {
                let mut ap = Map::new();
                ap.insert("principalTypes".into(), J::Array(a.principals.iter().map(|p| json!(rel_name(p, &ns, &mut t))).collect()));
                ap.insert("resourceTypes".into(), J::Array(a.resources.iter().map(|p| json!(rel_name(p, &ns, &mut t))).collect()));
                if !a.context.is_empty() || t.as_mut().map(|t| t.bool_p(1, 3)).unwrap_or(false) {
                    ap.insert("context".into(), json!({"type": "Record", "attributes": attrs_json(&a.context, &ns, &mut t)}));
                }
                m.insert("appliesTo".into(), J::Object(ap));
            }
            annotate_json(&format!("action:{}:{}", a.ns, a.id), &mut m);
            acts.insert(a.id.clone(), J::Object(m));
        }
        let cs = commons_in(&ns);
        if cs.is_empty() {
            let mut nm = Map::new();
            nm.insert("entityTypes".into(), J::Object(ets));
            nm.insert("actions".into(), J::Object(acts));
            if !ns.is_empty() {
                annotate_json(&format!("namespace:{ns}"), &mut nm);
            }
            out.insert(ns.clone(), J::Object(nm));
        } else {
            let mut cm = Map::new();
            for (_, name, cty) in &cs {
                // the definition itself is written structurally (never as a reference to itself)
                let def = COMMONS.with(|c| {
                    let saved = c.borrow().clone();
                    c.borrow_mut().retain(|(_, n, _)| n != name);
                    let d = type_json(cty, &ns, &mut None);
                    *c.borrow_mut() = saved;
                    d
                });
                let mut def = def;
                if let Some(dm) = def.as_object_mut() {
                    annotate_json(&format!("type:{ns}:{name}"), dm);
                }
                cm.insert(name.clone(), def);
            }
            let mut nm = Map::new();
            nm.insert("commonTypes".into(), J::Object(cm));
            nm.insert("entityTypes".into(), J::Object(ets));
            nm.insert("actions".into(), J::Object(acts));
            if !ns.is_empty() {
                annotate_json(&format!("namespace:{ns}"), &mut nm);
            }
            out.insert(ns.clone(), J::Object(nm));
        }
    }
    J::Object(out)
}

fn cedar_ident_or_str(k: &str) -> String {
    if text::is_ident(k) && !["in", "true", "false", "if", "then", "else", "has", "like", "is", "__cedar"].contains(&k) {
        k.to_string()
    } else {
        text::str_lit(k, &mut text::Style::canonical())
    }
}

pub fn type_cedar(ty: &RType, ns: &str, t: &mut Option<&mut Tape>) -> String {
    if let Some(n) = common_ref(ty, ns, t) {
        return n;
    }
    match ty {
        RType::Bool => builtin_name("Bool", ns, t),
        RType::Long => builtin_name("Long", ns, t),
        RType::Str => builtin_name("String", ns, t),
        RType::Ent(n) => rel_name(n, ns, t),
        RType::Set(el) => format!("Set<{}>", type_cedar(el, ns, t)),
        RType::Rec(attrs) => attrs_cedar(attrs, ns, t),
        RType::Ext(n) => builtin_name(ext_cedar_name(n), ns, t),
    }
}

pub fn attrs_cedar(attrs: &RAttrs, ns: &str, t: &mut Option<&mut Tape>) -> String {
    let items: Vec<String> = attrs.iter().map(|(k, (ty, req))| format!("{}{}{}: {}", annotations_cedar(&format!("attr:{k}"), " "), cedar_ident_or_str(k), if *req { "" } else { "?" }, type_cedar(ty, ns, t))).collect();
    format!("{{{}}}", items.join(", "))
}

pub fn schema_cedar(s: &RSchema, mut t: Option<&mut Tape>) -> String {
    set_declared(s);
    let mut out = String::new();
    for ns in s.namespaces() {
        let mut body = String::new();
        for e in s.entity_types.iter().filter(|e| split_name(&e.name).0 == ns) {
            let base = split_name(&e.name).1;
            if let Some(ids) = &e.enum_ids {
                body.push_str(&annotations_cedar(&e.name, "  "));
                body.push_str(&format!("  entity {base} enum [{}];\n", ids.iter().map(|i| text::str_lit(i, &mut text::Style::canonical())).collect::<Vec<_>>().join(", ")));
                continue;
            }
            let mut line = format!("{}  entity {base}", annotations_cedar(&e.name, "  "));
            if !e.member_of.is_empty() {
                let ps: Vec<String> = e.member_of.iter().map(|p| rel_name(p, &ns, &mut t)).collect();
                if ps.len() == 1 && t.as_mut().map(|t| t.coin()).unwrap_or(false) {
                    line.push_str(&format!(" in {}", ps[0]));
                } else {
                    line.push_str(&format!(" in [{}]", ps.join(", ")));
                }
            }
            if !e.attrs.is_empty() || t.as_mut().map(|t| t.bool_p(1, 4)).unwrap_or(false) {
                let eq = if t.as_mut().map(|t| t.coin()).unwrap_or(false) { " =" } else { "" };
                line.push_str(&format!("{eq} {}", attrs_cedar(&e.attrs, &ns, &mut t)));
            }
            if let Some(tt) = &e.tags {
                line.push_str(&format!(" tags {}", type_cedar(tt, &ns, &mut t)));
            }
            line.push_str(";\n");
            body.push_str(&line);
        }
        for a in s.actions.iter().filter(|a| a.ns == ns) {
            let mut line = format!("{}  action {}", annotations_cedar(&format!("action:{}:{}", a.ns, a.id), "  "), cedar_ident_or_str(&a.id));
            if !a.member_of.is_empty() {
                line.push_str(&format!(
                    " in [{}]",
                    a.member_of.iter().map(|g| if g.ty == a.ty() { cedar_ident_or_str(&g.id) } else { format!("{}::{}", g.ty, text::str_lit(&g.id, &mut text::Style::canonical())) }).collect::<Vec<_>>().join(", ")
                ));
            }
            if !(a.principals.is_empty() && a.resources.is_empty()) {
                let ps: Vec<String> = a.principals.iter().map(|p| rel_name(p, &ns, &mut t)).collect();
                let rs: Vec<String> = a.resources.iter().map(|p| rel_name(p, &ns, &mut t)).collect();
                line.push_str(&format!(" appliesTo {{ principal: [{}], resource: [{}]", ps.join(", "), rs.join(", ")));
                if !a.context.is_empty() || t.as_mut().map(|t| t.bool_p(1, 3)).unwrap_or(false) {
                    line.push_str(&format!(", context: {}", attrs_cedar(&a.context, &ns, &mut t)));
                }
                line.push_str(" }");
            }
            line.push_str(";\n");
            body.push_str(&line);
        }
        let mut cbody = String::new();
        for (_, name, cty) in commons_in(&ns) {
            let def = COMMONS.with(|c| {
                let saved = c.borrow().clone();
                c.borrow_mut().retain(|(_, n, _)| n != &name);
                let d = type_cedar(&cty, &ns, &mut None);
                *c.borrow_mut() = saved;
                d
            });
            cbody.push_str(&annotations_cedar(&format!("type:{ns}:{name}"), "  "));
            cbody.push_str(&format!("  type {name} = {def};\n"));
        }
        let body = format!("{cbody}{body}");
        if ns.is_empty() {
            out.push_str(&body.replace("\n  ", "\n").trim_start_matches("  ").to_string());
        } else {
            out.push_str(&annotations_cedar(&format!("namespace:{ns}"), ""));
            out.push_str(&format!("namespace {ns} {{\n{body}}}\n"));
        }
    }
    out
}

/// (uid JSON, attrs, parents, tags) entities document, explicit escapes everywhere
pub fn value_json_explicit(v: &crate::refmodel::V) -> J {
    use crate::refmodel::{ext, V};
    match v {
        V::Bool(b) => json!(b),
        V::Long(i) => json!(i),
        V::Str(s) => json!(s),
        V::Euid(u) => json!({"__entity": {"type": u.ty, "id": u.id}}),
        V::Set(xs) => J::Array(xs.iter().map(value_json_explicit).collect()),
        V::Rec(m) => J::Object(m.iter().map(|(k, v)| (k.clone(), value_json_explicit(v))).collect()),
        V::Decimal(d) => json!({"__extn": {"fn": "decimal", "arg": ext::decimal_canonical(*d)}}),
        V::Ip(ip) => json!({"__extn": {"fn": "ip", "arg": ip.spelling()}}),
        V::Duration(ms) => json!({"__extn": {"fn": "duration", "arg": ext::duration_spelling(*ms)}}),
        V::Datetime(ms) => json!({"__extn": {"fn": "offset", "args": [{"__extn": {"fn": "datetime", "arg": "1970-01-01"}}, {"__extn": {"fn": "duration", "arg": ext::duration_spelling(*ms)}}]}}),
    }
}

pub fn entities_json_explicit(w: &crate::refmodel::World) -> J {
    J::Array(
        w.entities
            .iter()
            .map(|(u, d)| {
                let mut m = Map::new();
                m.insert("uid".into(), json!({"type": u.ty, "id": u.id}));
                m.insert("attrs".into(), J::Object(d.attrs.iter().map(|(k, v)| (k.clone(), value_json_explicit(v))).collect()));
                m.insert("parents".into(), J::Array(d.parents.iter().map(|p| json!({"type": p.ty, "id": p.id})).collect()));
                if !d.tags.is_empty() {
                    m.insert("tags".into(), J::Object(d.tags.iter().map(|(k, v)| (k.clone(), value_json_explicit(v))).collect()));
                }
                J::Object(m)
            })
            .collect(),
    )
}

#[allow(dead_code)]
fn _unused(_: BTreeMap<String, String>) {}
