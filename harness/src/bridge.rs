//! cedar values/errors <-> reference values/error classes. The only place that inspects cedar types.

use crate::emit::text;
use crate::refmodel::{self as rm, ext, Class, Uid, V};
use cedar_policy::{Context, Entities, Entity, EntityId, EntityTypeName, EntityUid, Request, RestrictedExpression};
use cedar_policy_core::ast;
use cedar_policy_core::evaluator::EvaluationError;
use std::collections::{BTreeMap, BTreeSet, HashSet};
use std::str::FromStr;

pub fn euid(u: &Uid) -> EntityUid {
    EntityUid::from_type_name_and_id(
        EntityTypeName::from_str(&u.ty).unwrap_or_else(|e| panic!("harness: bad type name {}: {e}", u.ty)),
        EntityId::new(&u.id),
    )
}

pub fn uid_of_core(u: &ast::EntityUID) -> Uid {
    Uid { ty: u.entity_type().to_string(), id: AsRef::<str>::as_ref(u.eid()).to_string() }
}

pub fn uid_of(u: &EntityUid) -> Uid {
    uid_of_core(u.as_ref())
}

pub fn rexpr(v: &V) -> RestrictedExpression {
    match v {
        V::Bool(b) => RestrictedExpression::new_bool(*b),
        V::Long(i) => RestrictedExpression::new_long(*i),
        V::Str(s) => RestrictedExpression::new_string(s.clone()),
        V::Euid(u) => RestrictedExpression::new_entity_uid(euid(u)),
        V::Set(s) => RestrictedExpression::new_set(s.iter().map(rexpr)),
        V::Rec(m) => RestrictedExpression::new_record(m.iter().map(|(k, v)| (k.clone(), rexpr(v)))).expect("harness: duplicate key in BTreeMap?"),
        V::Decimal(d) => RestrictedExpression::new_decimal(ext::decimal_canonical(*d)),
        V::Ip(ip) => RestrictedExpression::new_ip(ip.spelling()),
        V::Duration(ms) => RestrictedExpression::new_duration(ext::duration_spelling(*ms)),
        V::Datetime(_) => RestrictedExpression::from_str(&text::value(v)).unwrap_or_else(|e| panic!("harness: datetime restricted expr: {e}")),
    }
}

pub fn entity(u: &Uid, d: &rm::EntityData) -> Result<Entity, String> {
    Entity::new_with_tags(
        euid(u),
        d.attrs.iter().map(|(k, v)| (k.clone(), rexpr(v))),
        d.parents.iter().map(euid).collect::<HashSet<_>>(),
        d.tags.iter().map(|(k, v)| (k.clone(), rexpr(v))),
    )
    .map_err(|e| e.to_string())
}

pub fn entities_vec(w: &rm::World) -> Result<Vec<Entity>, String> {
    w.entities.iter().map(|(u, d)| entity(u, d)).collect()
}

pub fn entities(w: &rm::World) -> Result<Entities, String> {
    Entities::from_entities(entities_vec(w)?, None).map_err(|e| e.to_string())
}

pub fn context(c: &BTreeMap<String, V>) -> Result<Context, String> {
    Context::from_pairs(c.iter().map(|(k, v)| (k.clone(), rexpr(v)))).map_err(|e| e.to_string())
}

pub fn request(r: &rm::Req) -> Result<Request, String> {
    Request::new(euid(&r.principal), euid(&r.action), euid(&r.resource), context(&r.context)?, None).map_err(|e| e.to_string())
}

fn restricted_to_v(e: &ast::Expr) -> Result<V, String> {
    use ast::ExprKind as K;
    match e.expr_kind() {
        K::Lit(l) => lit_to_v(l),
        K::Set(xs) => Ok(V::Set(xs.iter().map(restricted_to_v).collect::<Result<BTreeSet<_>, _>>()?)),
        K::Record(m) => Ok(V::Rec(m.iter().map(|(k, v)| Ok((k.to_string(), restricted_to_v(v)?))).collect::<Result<BTreeMap<_, _>, String>>()?)),
        K::ExtensionFunctionApp { fn_name, args } => {
            let name = fn_name.to_string();
            let a: Vec<V> = args.iter().map(restricted_to_v).collect::<Result<_, _>>()?;
            rm::call_ext(&name, &a).map_err(|er| format!("bridge: canonical form `{e}` does not denote a value in the reference model ({:?})", er.class))
        }
        _ => Err(format!("bridge: unexpected expression in canonical extension form: {e}")),
    }
}

fn lit_to_v(l: &ast::Literal) -> Result<V, String> {
    Ok(match l {
        ast::Literal::Bool(b) => V::Bool(*b),
        ast::Literal::Long(i) => V::Long(*i),
        ast::Literal::String(s) => V::Str(s.to_string()),
        ast::Literal::EntityUID(u) => V::Euid(uid_of_core(u)),
    })
}

/// cedar value -> reference value. Extension values are read through their canonical representation
/// (the value cedar actually holds), not through the constructor argument they were built from.
pub fn value(v: &ast::Value) -> Result<V, String> {
    match &v.value {
        ast::ValueKind::Lit(l) => lit_to_v(l),
        ast::ValueKind::Set(s) => Ok(V::Set(s.iter().map(value).collect::<Result<BTreeSet<_>, _>>()?)),
        ast::ValueKind::Record(m) => Ok(V::Rec(m.iter().map(|(k, v)| Ok((k.to_string(), value(v)?))).collect::<Result<BTreeMap<_, _>, String>>()?)),
        ast::ValueKind::ExtensionValue(ev) => {
            let (name, args) = ev.value().canonical_repr().ok_or_else(|| "bridge: extension value without canonical representation".to_string())?;
            let a: Vec<V> = args.iter().map(|r| restricted_to_v(r.as_ref())).collect::<Result<_, _>>()?;
            rm::call_ext(&name.to_string(), &a).map_err(|er| format!("bridge: canonical form {name}(..) of `{v}` does not denote a value in the reference model ({:?})", er.class))
        }
    }
}

pub fn class(e: &EvaluationError) -> Option<Class> {
    Some(match e {
        EvaluationError::TypeError(_) => Class::Type,
        EvaluationError::EntityDoesNotExist(_) => Class::NoEntity,
        EvaluationError::EntityAttrDoesNotExist(_) | EvaluationError::RecordAttrDoesNotExist(_) => Class::NoAttr,
        EvaluationError::IntegerOverflow(_) => Class::Overflow,
        EvaluationError::FailedExtensionFunctionExecution(_) => Class::Ext,
        EvaluationError::WrongNumArguments(_) => Class::Arity,
        EvaluationError::FailedExtensionFunctionLookup(_) => Class::UnknownFn,
        _ => return None,
    })
}

/// Outcome of evaluating one expression with the real evaluator.
#[derive(Debug, Clone, PartialEq)]
pub enum Got {
    Val(V),
    Err(Class),
    /// something the reference has no counterpart for (recursion limit, non-value, bridge failure)
    Other(String),
}

pub fn interpret(expr: &ast::Expr, req: &Request, ents: &Entities) -> Got {
    use cedar_policy_core::evaluator::Evaluator;
    use cedar_policy_core::extensions::Extensions;
    let ev = Evaluator::new(req.as_ref().clone(), ents.as_ref(), Extensions::all_available());
    match ev.interpret(expr, &ast::SlotEnv::new()) {
        Ok(v) => match value(&v) {
            Ok(v) => Got::Val(v),
            Err(e) => Got::Other(e),
        },
        Err(e) => match class(&e) {
            Some(c) => Got::Err(c),
            None => Got::Other(format!("{e}")),
        },
    }
}

/// Compare against the reference result. Returns a description of the disagreement.
pub fn agree(got: &Got, want: &rm::R) -> Result<(), String> {
    match (got, want) {
        (Got::Val(a), Ok(b)) if a == b => Ok(()),
        (Got::Err(c), Err(e)) if e.accepts(*c) => Ok(()),
        (Got::Other(s), _) => Err(format!("implementation produced an outcome outside the language definition: {s}")),
        _ => Err(format!("implementation: {got:?}\nreference:      {want:?}")),
    }
}
