//! cedar values/errors <-> reference values/error classes. The only place that inspects cedar types.

use crate::emit::text;
use crate::refmodel::{self as rm, ext, Class, Uid, V};
use cedar_policy::{Context, Entities, Entity, EntityId, EntityTypeName, EntityUid, Request, RestrictedExpression};
use cedar_policy_core::ast;
use cedar_policy_core::evaluator::EvaluationError;
use std::collections::{BTreeMap, BTreeSet, HashSet};
use std::str::FromStr;

pub fn euid(u: &Uid) -> EntityUid {
    EntityUid::from_type_name_and_id(
        EntityTypeName::from_str(&u.ty).unwrap_or_else(|e| panic!("harness: bad type name {}: {e}", u.ty)),
        EntityId::new(&u.id),
    )
}

pub fn uid_of_core(u: &ast::EntityUID) -> Uid {
    Uid { ty: u.entity_type().to_string(), id: AsRef::<str>::as_ref(u.eid()).to_string() }
}

pub fn uid_of(u: &EntityUid) -> Uid {
    uid_of_core(u.as_ref())
}

pub fn rexpr(v: &V) -> RestrictedExpression {
    match v {
        V::Bool(b) => RestrictedExpression::new_bool(*b),
        V::Long(i) => RestrictedExpression::new_long(*i),
        V::Str(s) => RestrictedExpression::new_string(s.clone()),
        V::Euid(u) => RestrictedExpression::new_entity_uid(euid(u)),
        V::Set(s) => RestrictedExpression::new_set(s.iter().map(rexpr)),
        V::Rec(m) => RestrictedExpression::new_record(m.iter().map(|(k, v)| (k.clone(), rexpr(v)))).expect("harness: duplicate key in BTreeMap?"),
        V::Decimal(d) => RestrictedExpression::new_decimal(ext::decimal_canonical(*d)),
        V::Ip(ip) => RestrictedExpression::new_ip(ip.spelling()),
        V::Duration(ms) => RestrictedExpression::new_duration(ext::duration_spelling(*ms)),
        V::Datetime(_) => RestrictedExpression::from_str(&text::value(v)).unwrap_or_else(|e| panic!("harness: datetime restricted expr: {e}")),
    }
}

pub fn entity(u: &Uid, d: &rm::EntityData) -> Result<Entity, String> {
    Entity::new_with_tags(
        euid(u),
        d.attrs.iter().map(|(k, v)| (k.clone(), rexpr(v))),
        d.parents.iter().map(euid).collect::<HashSet<_>>(),
        d.tags.iter().map(|(k, v)| (k.clone(), rexpr(v))),
    )
    .map_err(|e| e.to_string())
}

pub fn entities_vec(w: &rm::World) -> Result<Vec<Entity>, String> {
    w.entities.iter().map(|(u, d)| entity(u, d)).collect()
}

pub fn entities(w: &rm::World) -> Result<Entities, String> {
    Entities::from_entities(entities_vec(w)?, None).map_err(|e| e.to_string())
}

pub fn context(c: &BTreeMap<String, V>) -> Result<Context, String> {
    Context::from_pairs(c.iter().map(|(k, v)| (k.clone(), rexpr(v)))).map_err(|e| e.to_string())
}

pub fn request(r: &rm::Req) -> Result<Request, String> {
    Request::new(euid(&r.principal), euid(&r.action), euid(&r.resource), context(&r.context)?, None).map_err(|e| e.to_string())
}

fn restricted_to_v(e: &ast::Expr) -> Result<V, String> {
    use ast::ExprKind as K;
    match e.expr_kind() {
        K::Lit(l) => lit_to_v(l),
        K::Set(xs) => Ok(V::Set(xs.iter().map(restricted_to_v).collect::<Result<BTreeSet<_>, _>>()?)),
        K::Record(m) => Ok(V::Rec(m.iter().map(|(k, v)| Ok((k.to_string(), restricted_to_v(v)?))).collect::<Result<BTreeMap<_, _>, String>>()?)),
        K::ExtensionFunctionApp { fn_name, args } => {
            let name = fn_name.to_string();
            let a: Vec<V> = args.iter().map(restricted_to_v).collect::<Result<_, _>>()?;
            rm::call_ext(&name, &a).map_err(|er| format!("bridge: canonical form `{e}` does not denote a value in the reference model ({:?})", er.class))
        }
        _ => Err(format!("bridge: unexpected expression in canonical extension form: {e}")),
    }
}

fn lit_to_v(l: &ast::Literal) -> Result<V, String> {
    Ok(match l {
        ast::Literal::Bool(b) => V::Bool(*b),
        ast::Literal::Long(i) => V::Long(*i),
        ast::Literal::String(s) => V::Str(s.to_string()),
        ast::Literal::EntityUID(u) => V::Euid(uid_of_core(u)),
    })
}

/// cedar value -> reference value. Extension values are read through their canonical representation
/// (the value cedar actually holds), not through the constructor argument they were built from.
pub fn value(v: &ast::Value) -> Result<V, String> {
    match &v.value {
        ast::ValueKind::Lit(l) => lit_to_v(l),
        ast::ValueKind::Set(s) => Ok(V::Set(s.iter().map(value).collect::<Result<BTreeSet<_>, _>>()?)),
        ast::ValueKind::Record(m) => Ok(V::Rec(m.iter().map(|(k, v)| Ok((k.to_string(), value(v)?))).collect::<Result<BTreeMap<_, _>, String>>()?)),
        ast::ValueKind::ExtensionValue(ev) => {
            let (name, args) = ev.value().canonical_repr().ok_or_else(|| "bridge: extension value without canonical representation".to_string())?;
            let a: Vec<V> = args.iter().map(|r| restricted_to_v(r.as_ref())).collect::<Result<_, _>>()?;
            // The canonical form is only *read* here. For IPv4-mapped / IPv4-compatible IPv6 addresses cedar formats it with
            // std's dotted notation (`::ffff:10.0.0.1/128`), a spelling the `ip` constructor itself refuses; read it leniently
            // (whether that canonical form can be *used* is checked where the library uses it: TPE residuals, C14).
            if name.to_string() == "ip" {
                if let [V::Str(s)] = a.as_slice() {
                    if let Some(ip) = lenient_ip(s) {
                        return Ok(V::Ip(ip));
                    }
                }
            }
            rm::call_ext(&name.to_string(), &a).map_err(|er| format!("bridge: canonical form {name}(..) of `{v}` does not denote a value in the reference model ({:?})", er.class))
        }
    }
}

/// `addr[/prefix]` as std prints it (any notation std accepts)
fn lenient_ip(s: &str) -> Option<rm::ext::Ip> {
    let (a, p) = match s.split_once('/') {
        Some((a, p)) => (a, Some(p.parse::<u8>().ok()?)),
        None => (s, None),
    };
    match a.parse::<std::net::IpAddr>().ok()? {
        std::net::IpAddr::V4(x) => Some(rm::ext::Ip { v6: false, addr: u32::from(x) as u128, prefix: p.unwrap_or(32) }),
        std::net::IpAddr::V6(x) => Some(rm::ext::Ip { v6: true, addr: u128::from(x), prefix: p.unwrap_or(128) }),
    }
}

pub fn class(e: &EvaluationError) -> Option<Class> {
    Some(match e {
        EvaluationError::TypeError(_) => Class::Type,
        EvaluationError::EntityDoesNotExist(_) => Class::NoEntity,
        EvaluationError::EntityAttrDoesNotExist(_) | EvaluationError::RecordAttrDoesNotExist(_) => Class::NoAttr,
        EvaluationError::IntegerOverflow(_) => Class::Overflow,
        EvaluationError::FailedExtensionFunctionExecution(_) => Class::Ext,
        EvaluationError::WrongNumArguments(_) => Class::Arity,
        EvaluationError::FailedExtensionFunctionLookup(_) => Class::UnknownFn,
        _ => return None,
    })
}

/// Outcome of evaluating one expression with the real evaluator.
#[derive(Debug, Clone, PartialEq)]
pub enum Got {
    Val(V),
    Err(Class),
    /// something the reference has no counterpart for (recursion limit, non-value, bridge failure)
    Other(String),
}

pub fn interpret(expr: &ast::Expr, req: &Request, ents: &Entities) -> Got {
    use cedar_policy_core::evaluator::Evaluator;
    use cedar_policy_core::extensions::Extensions;
    let ev = Evaluator::new(req.as_ref().clone(), ents.as_ref(), Extensions::all_available());
    match ev.interpret(expr, &ast::SlotEnv::new()) {
        Ok(v) => match value(&v) {
            Ok(v) => Got::Val(v),
            Err(e) => Got::Other(e),
        },
        Err(e) => match class(&e) {
            Some(c) => Got::Err(c),
            None => Got::Other(format!("{e}")),
        },
    }
}

/// Compare against the reference result. Returns a description of the disagreement.
pub fn agree(got: &Got, want: &rm::R) -> Result<(), String> {
    match (got, want) {
        (Got::Val(a), Ok(b)) if a == b => Ok(()),
        (Got::Err(c), Err(e)) if e.accepts(*c) => Ok(()),
        (Got::Other(s), _) => Err(format!("implementation produced an outcome outside the language definition: {s}")),
        _ => Err(format!("implementation: {got:?}\nreference:      {want:?}")),
    }
}

// ---------------------------------------------------------------------------------------------
// structural comparison of a parsed AST with a reference expression (desugared, bool-literal-folded)

pub fn expr_matches(a: &ast::Expr, e: &rm::E) -> Result<(), String> {
    use ast::ExprKind as K;
    use rm::{BinOp, E};
    let mismatch = || Err(format!("parsed `{a}` does not have the structure of the reference node {e:?}"));
    match (a.expr_kind(), e) {
        (K::Lit(l), E::Lit(v)) => {
            if lit_to_v(l).as_ref() == Ok(v) {
                Ok(())
            } else {
                mismatch()
            }
        }
        (K::Var(v), E::Var(w)) => {
            if v.to_string() == w.name() {
                Ok(())
            } else {
                mismatch()
            }
        }
        (K::If { test_expr, then_expr, else_expr }, E::If(c, x, y)) => {
            expr_matches(test_expr, c)?;
            expr_matches(then_expr, x)?;
            expr_matches(else_expr, y)
        }
        (K::And { left, right }, E::And(x, y)) | (K::Or { left, right }, E::Or(x, y)) => {
            expr_matches(left, x)?;
            expr_matches(right, y)
        }
        (K::UnaryApp { op, arg }, E::Not(x)) if *op == ast::UnaryOp::Not => expr_matches(arg, x),
        (K::UnaryApp { op, arg }, E::Neg(x)) if *op == ast::UnaryOp::Neg => expr_matches(arg, x),
        (K::UnaryApp { op, arg }, E::IsEmpty(x)) if *op == ast::UnaryOp::IsEmpty => expr_matches(arg, x),
        (K::BinaryApp { op, arg1, arg2 }, E::Bin(bop, x, y)) => {
            let want = match bop {
                BinOp::Eq => ast::BinaryOp::Eq,
                BinOp::Lt => ast::BinaryOp::Less,
                BinOp::Le => ast::BinaryOp::LessEq,
                BinOp::Add => ast::BinaryOp::Add,
                BinOp::Sub => ast::BinaryOp::Sub,
                BinOp::Mul => ast::BinaryOp::Mul,
                BinOp::In => ast::BinaryOp::In,
                BinOp::Contains => ast::BinaryOp::Contains,
                BinOp::ContainsAll => ast::BinaryOp::ContainsAll,
                BinOp::ContainsAny => ast::BinaryOp::ContainsAny,
                BinOp::GetTag => ast::BinaryOp::GetTag,
                BinOp::HasTag => ast::BinaryOp::HasTag,
                BinOp::Neq | BinOp::Gt | BinOp::Ge => return mismatch(), // sugar must have been removed
            };
            if *op != want {
                return mismatch();
            }
            expr_matches(arg1, x)?;
            expr_matches(arg2, y)
        }
        (K::ExtensionFunctionApp { fn_name, args }, E::Call(f, xs)) => {
            if &fn_name.to_string() != f || args.len() != xs.len() {
                return mismatch();
            }
            for (p, q) in args.iter().zip(xs) {
                expr_matches(p, q)?;
            }
            Ok(())
        }
        (K::GetAttr { expr, attr }, E::GetAttr(x, n)) => {
            if attr.as_str() != n {
                return mismatch();
            }
            expr_matches(expr, x)
        }
        (K::HasAttr { expr, attr }, E::Has(x, p)) if p.len() == 1 => {
            if attr.as_str() != p[0] {
                return mismatch();
            }
            expr_matches(expr, x)
        }
        (K::Like { expr, pattern }, E::Like(x, p)) => {
            let got: Vec<rm::Pat> = pattern
                .iter()
                .map(|pe| match pe {
                    ast::PatternElem::Char(c) => rm::Pat::Char(*c),
                    ast::PatternElem::Wildcard => rm::Pat::Star,
                })
                .collect();
            if &got != p {
                return mismatch();
            }
            expr_matches(expr, x)
        }
        (K::Is { expr, entity_type }, E::Is(x, t, None)) => {
            if &entity_type.to_string() != t {
                return mismatch();
            }
            expr_matches(expr, x)
        }
        (K::Set(xs), E::Set(ys)) => {
            if xs.len() != ys.len() {
                return mismatch();
            }
            for (p, q) in xs.iter().zip(ys) {
                expr_matches(p, q)?;
            }
            Ok(())
        }
        (K::Record(m), E::Rec(fs)) => {
            if m.len() != fs.len() {
                return mismatch();
            }
            for (k, q) in fs {
                match m.get(k.as_str()) {
                    Some(p) => expr_matches(p, q)?,
                    None => return mismatch(),
                }
            }
            Ok(())
        }
        _ => mismatch(),
    }
}

// ---------------------------------------------------------------------------------------------
// policies / templates

use rm::policy::{ActC, EntRef, PrC, RPolicy};

fn por_matches(c: &ast::PrincipalOrResourceConstraint, r: &PrC) -> bool {
    use ast::PrincipalOrResourceConstraint as C;
    let refm = |er: &ast::EntityReference, rr: &EntRef| match (er, rr) {
        (ast::EntityReference::EUID(u), EntRef::Uid(w)) => &uid_of_core(u) == w,
        (ast::EntityReference::Slot(_), EntRef::Slot) => true,
        _ => false,
    };
    match (c, r) {
        (C::Any, PrC::Any) => true,
        (C::Eq(e), PrC::Eq(r)) | (C::In(e), PrC::In(r)) => refm(e, r),
        (C::Is(t), PrC::Is(s)) => &t.to_string() == s,
        (C::IsIn(t, e), PrC::IsIn(s, r)) => &t.to_string() == s && refm(e, r),
        _ => false,
    }
}

fn action_matches(c: &ast::ActionConstraint, r: &ActC) -> bool {
    match (c, r) {
        (ast::ActionConstraint::Any, ActC::Any) => true,
        (ast::ActionConstraint::Eq(u), ActC::Eq(w)) => &uid_of_core(u) == w,
        (ast::ActionConstraint::In(us), ActC::In(w)) => us.len() == 1 && &uid_of_core(&us[0]) == w,
        (ast::ActionConstraint::In(us), ActC::InSet(ws)) => us.len() == ws.len() && us.iter().zip(ws).all(|(u, w)| &uid_of_core(u) == w),
        _ => false,
    }
}

pub fn annotations_of(t: &ast::Template) -> BTreeMap<String, String> {
    t.annotations().map(|(k, v)| (k.to_string(), v.val.to_string())).collect()
}

/// Does the parsed template have exactly the structure of the reference policy?
pub fn template_matches(t: &ast::Template, r: &RPolicy) -> Result<(), String> {
    if (t.effect() == ast::Effect::Permit) != r.permit {
        return Err(format!("effect: parsed {:?}", t.effect()));
    }
    let want_ann: BTreeMap<String, String> = r.annotations.iter().cloned().collect();
    let got_ann = annotations_of(t);
    if got_ann != want_ann {
        return Err(format!("annotations: parsed {got_ann:?}, written {want_ann:?}"));
    }
    if !por_matches(t.principal_constraint().as_inner(), &r.principal) {
        return Err(format!("principal constraint: parsed `{}`, written {:?}", t.principal_constraint(), r.principal));
    }
    if !action_matches(t.action_constraint(), &r.action) {
        return Err(format!("action constraint: parsed `{}`, written {:?}", t.action_constraint(), r.action));
    }
    if !por_matches(t.resource_constraint().as_inner(), &r.resource) {
        return Err(format!("resource constraint: parsed `{}`, written {:?}", t.resource_constraint(), r.resource));
    }
    match (t.non_scope_constraints(), r.non_scope()) {
        (None, None) => Ok(()),
        (Some(a), Some(e)) => expr_matches(a, &e.desugar().fold_bool_lits()),
        (a, e) => Err(format!("conditions: parsed {:?}, written {:?}", a.map(|x| x.to_string()), e)),
    }
}

/// Structural equality of two templates (ids excluded).
pub fn templates_equal(a: &ast::Template, b: &ast::Template) -> Result<(), String> {
    if a.effect() != b.effect() {
        return Err("effect differs".into());
    }
    if annotations_of(a) != annotations_of(b) {
        return Err(format!("annotations differ: {:?} vs {:?}", annotations_of(a), annotations_of(b)));
    }
    if a.principal_constraint() != b.principal_constraint() {
        return Err(format!("principal constraint differs: `{}` vs `{}`", a.principal_constraint(), b.principal_constraint()));
    }
    if a.action_constraint() != b.action_constraint() {
        return Err(format!("action constraint differs: `{}` vs `{}`", a.action_constraint(), b.action_constraint()));
    }
    if a.resource_constraint() != b.resource_constraint() {
        return Err(format!("resource constraint differs: `{}` vs `{}`", a.resource_constraint(), b.resource_constraint()));
    }
    let sa: BTreeSet<String> = a.slots().map(|s| s.id.to_string()).collect();
    let sb: BTreeSet<String> = b.slots().map(|s| s.id.to_string()).collect();
    if sa != sb {
        return Err(format!("slots differ: {sa:?} vs {sb:?}"));
    }
    match (a.non_scope_constraints(), b.non_scope_constraints()) {
        (None, None) => Ok(()),
        (Some(x), Some(y)) if x.eq_shape(y) => Ok(()),
        (x, y) => Err(format!("conditions differ:\n  {}\n  {}", x.map(|e| e.to_string()).unwrap_or_default(), y.map(|e| e.to_string()).unwrap_or_default())),
    }
}
