//! Byte-level fuzzing: raw text into the parsers with the semantic oracles of C05 / C12 / C20 inside the target.
#![no_main]
use libfuzzer_sys::fuzz_target;

fuzz_target!(|data: &[u8]| {
    cedar_verif::fuzzing::text_target(data);
});
