//! Coverage-guided fuzzing of the choice tape: libFuzzer mutates *choices*, the generators and oracles are
//! the harness' own. VERIF_FUZZ_TARGET = "<property>:<sub-check>" selects which case function runs.
#![no_main]
use libfuzzer_sys::fuzz_target;

fuzz_target!(|data: &[u8]| {
    cedar_verif::fuzzing::tape_target(data);
});
