#!/usr/bin/env python3
"""Regenerates MANIFEST.json from the table below (keeps it valid at all times)."""
import json
CLAIMED = {
 "C04": ("model-based stateful property testing (proptest-driven choice tape) against a parent-reachability reference model",
         "5.4",
         "Generated operation histories are replayed against an independent map/DFS model and all 64 uid pairs are queried after every step through three observers; shrinking yields a minimal history. Exploration, not proof: bounded to 7 uids and <=20 operations.",
         "trusted: the 40-line reference model (direct-parent map, DFS), the documented duplicate rule; cedar's parser/authorizer for the `in` observer"),
}
ALL = ["C%02d" % i for i in range(1, 21)]
checks = []
for pid in ALL:
    if pid in CLAIMED:
        tech, ref, text, note = CLAIMED[pid]
        checks.append({
            "property_id": pid,
            "quick_cmd": f"./check {pid} --tier quick",
            "thorough_cmd": f"./check {pid} --tier thorough",
            "evidence_file": f"/verif/evidence/{pid}.json",
            "replay_cmd_template": f"./check {pid} --replay {{path}}",
            "engine": "cedar-verif",
            "level_claimed": {"category": "exploration", "text": text, "design_ref": f"DESIGN.md §{ref}"},
            "level_note": note,
            "technique": tech,
        })
m = {
 "version": 1,
 "setup_cmd": "cd /verif/harness && CARGO_NET_OFFLINE=true cargo build --release --offline",
 "hooks": {
   "guard": "cedar_policy_cedar_verif",
   "enable": "no hooks are needed: the harness links /repo's crates through path dependencies and observes public APIs only",
   "baseline_off_cmd": "cd /repo && cargo test --workspace --no-fail-fast --offline",
   "source_commits": [],
   "add_only": True,
 },
 "engines": [{"name": "cedar-verif", "path": "/verif/harness", "serves_properties": sorted(CLAIMED), "kind_free_text": "Rust crate: proptest-driven choice tape, reference models, oracles; libFuzzer targets reuse the same generators"}],
 "checks": checks,
 "not_applicable": [{"property_id": p, "reason": "check not built yet (work in progress; the technique applies, see DESIGN.md)"} for p in ALL if p not in CLAIMED],
 "notes": "All checks rebuild the harness against /repo's working tree (cargo path dependencies). Exit 2 = inconclusive (build failure, watchdog, degenerate generator).",
}
json.dump(m, open("/verif/MANIFEST.json", "w"), indent=1)
