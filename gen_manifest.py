#!/usr/bin/env python3
"""Regenerates MANIFEST.json from the table below (keeps it valid at all times)."""
import json
PT = "proptest-driven choice tape (structured generation, tape-aware shrinking, replay)"
CLAIMED = {
 "C01": ("property-based testing: generated policy sets x requests x stores against a reference authorizer, plus metamorphic purity relations (permutation, id respelling, entity order, repetition, earlier calls)", "5.1",
         "Each generated case is decided by a 15-line reference authorizer over outcomes computed by the independent reference interpreter, and re-run under 8 meaning-preserving transformations. Exploration over bounded sizes (<=16 policies), no proof.",
         "trusted: reference interpreter + reference authorizer, harness emitters; hash-order independence only sampled by re-construction"),
 "C02": ("differential property-based testing against an independent reference interpreter of Cedar, over 5 delivery paths (expression text, when, unless, JSON policy, scope)", "5.2",
         "Grammar-complete untyped expressions (ill-typed operands on purpose, i64 boundaries, extension strings) are evaluated by a reference interpreter written from the language docs and by cedar through every delivery path; values compared exactly, errors by class.",
         "trusted: refmodel::eval and refmodel::ext; bridge from cedar values (canonical extension representation) to reference values"),
 "C03": ("property-based testing of validator soundness: type-directed policies with planted guard mistakes, accepted ones evaluated on conformant worlds; lock-step check of every evaluated subexpression against its static type", "5.3",
         "Every policy strict validation accepts is run on fresh conformant worlds: only missing-entity/overflow/extension errors may occur and each evaluated node of the typechecker's typed AST must inhabit its static type; trap-free policies must be accepted (non-vacuity) and strict => permissive.",
         "trusted: World-S conformance (re-validated by the library), inhabits_cedar, Policy-T's conservative fragment (calibrated)"),
 "C04": ("model-based stateful property testing against a parent-reachability reference model", "5.4",
         "Generated operation histories are replayed against an independent map/DFS model and all 64 uid pairs are queried after every step through three observers; shrinking yields a minimal history. Bounded to 7 uids and <=20 operations.",
         "trusted: the 40-line reference model (direct-parent map, DFS), the documented duplicate rule; cedar's parser/authorizer for the `in` observer"),
 "C05": ("round-trip property testing: reference AST -> random spelling -> parse -> print -> parse, compared structurally with the reference AST", "5.5",
         "Texts are printed from a reference AST with random meaning-preserving spelling; the parse must have the reference structure (pins precedence/associativity/escapes to the grammar, not to self-consistency) and both printers' output must re-parse to it.",
         "trusted: harness emitter and structural matcher; depth <= 6"),
 "C06": ("round-trip property testing across JSON/EST, PST and protobuf with structural comparison against the text-born object and the reference AST; per-id policy-set comparison plus authorizer agreement", "5.6",
         "Every conversion pair is exercised on generated policies, templates and linked policy sets; equality is structural per id and re-checked against the reference AST so that a weakened equality cannot hide a loss.",
         "trusted: harness emitters/matcher; PST is not asserted for wrong-arity extension calls (documented WrongArity construction error)"),
 "C07": ("property-based testing against exact reference arithmetic (own parsers, i128, own civil-date code) over valid / boundary / near-miss constructor strings and boundary-biased operands", "5.7",
         "Constructor acceptance and values, every operation, and equality-by-value are compared with an independent exact implementation; values are additionally observed through cedar's own observers so a constructor bug cannot hide behind a printer bug.",
         "trusted: refmodel::ext (unit-tested on documented examples)"),
 "C09": ("differential / round-trip property testing of the two schema syntaxes: one reference schema emitted in both, each translated to the other, compared by schema equality and by validation verdicts", "5.9",
         "Generated schemas (namespaces, common types, enums, tags, groups, quoted identifiers) are written in both syntaxes with random layout; both must load to equal schemas and each translation must load to a schema equal to its source, with identical policy/entity/request validation verdicts.",
         "trusted: harness schema emitters (cross-checked against each other); translation errors are counted, not judged"),
 "C10": ("round-trip and differential property testing of entity/context JSON (to_json -> from_json with/without schema; implicit vs explicit escapes per position; reserved keys)", "5.10",
         "Conformant stores over all value shapes are serialised and re-parsed with and without the schema and compared with deep_eq and per uid; the same data in randomly mixed implicit/explicit forms must parse to the same store; records with reserved-looking keys must be refused or round-trip.",
         "trusted: harness JSON writers; Entities::deep_eq (cross-checked per uid)"),
 "C11": ("single-fault mutation testing: conformant-by-construction data must be accepted, data with exactly one injected violation (20 kinds, any depth) must be rejected, through every schema-taking entry point", "5.11",
         "Generated conformant stores/requests are accepted by all 11 entry points; each of 20 fault kinds is injected alone and every entry point documented to cover the faulted component must reject. Two listed findings (Context::from_json_value leaf validation) are reported as KNOWN-FINDING.",
         "trusted: World-S conformance by construction, fault mutators, fault->entry point table from the API docs"),
 "C13": ("property-based testing of partial evaluation against ground truth: unknowns introduced by erasure, several substitutions per case, concrete authorization of the substituted inputs as oracle", "5.13",
         "Principal/resource (typed or untyped), context (whole or per attribute), entity attributes and whole entities are made unknown; for the erased values and for random values of the declared kinds the definite decision, must/may-determining sets, definite buckets and reauthorize are compared with concrete authorization.",
         "trusted: ordinary authorization as ground truth (itself checked by C01/C02); one listed finding (debug assertion on residuals with template slots) is reported as KNOWN-FINDING"),
 "C14": ("property-based testing of TPE against concrete completions: partial inputs derived from a concrete world by erasure; residuals, views, reauthorization and permission queries compared with ordinary authorization / brute force", "5.14",
         "The concrete world is a consistent completion by construction; further completions regenerate the erased parts. Definite decisions, per-policy residual outcomes, agreement of all response views, reauthorize and the three query functions are checked on every completion.",
         "trusted: World-S conformance, conformant regeneration of erased parts; residuals evaluated by the ordinary authorizer"),
 "C15": ("property-based testing: loader-driven authorization vs ordinary authorization for every budget 0..n+1, with exact and superset loaders; monotonicity and sufficiency bound", "5.15",
         "For generated valid policy sets and conformant stores with entity chains and absent entities, every budget's answer is compared with ordinary authorization; only `insufficient iterations` is admissible as an error, decisions are stable under larger budgets and budget n+1 decides.",
         "trusted: World-S conformance; loader contract (returns the store's data, possibly more)"),
 "C16": ("property-based testing: level-validated policy sets authorized over the full store vs the harness-computed level-n slice (metamorphic equality of responses); monotonicity in n", "5.16",
         "Chain-biased schemas and strictly valid policies with deep access paths; whenever validate_with_level(n) accepts, the smallest store the guarantee speaks about (own RFC-76 slicer) must give the same decision, reasons and error ids.",
         "trusted: harness level slicer, World-S conformance; n <= 4"),
 "C17": ("property-based testing: manifest-sliced store vs full store must give identical responses", "5.17",
         "compute_entity_manifest + slice_entities on generated valid policy sets and conformant stores; responses compared (decision, reasons, error ids). Manifest refusals for documented unsupported features are counted skips.",
         "trusted: World-S conformance; tags are outside the manifest's supported fragment"),
 "C18": ("differential property testing: symbolic compilation on literal environments (no solver) vs the concrete evaluator/authorizer, truth table over all verification conditions", "5.18",
         "For generated valid policies and conformant concrete environments the literal SymEnv is compiled and all 11 verification conditions must reduce to constants agreeing with concrete evaluation. 15/16 of the stores are closed by construction; disagreements on stores with dangling references are the listed finding.",
         "trusted: World-S conformance; the reading of literal asserts (as in upstream's test utilities); literal environments only"),
 "C08": ("model-based stateful property testing of PolicySet edit histories with a substitution oracle for links", "5.8",
         "Operation histories (incl. merge with renaming) run against an id-map model with the documented error rules; all observers are compared after every step and authorization is compared with the textually substituted static set.",
         "trusted: id-map model; 5 ids, 8 texts, <=30 operations"),
}
ALL = ["C%02d" % i for i in range(1, 21)]
checks = []
for pid in ALL:
    if pid in CLAIMED:
        tech, ref, text, note = CLAIMED[pid]
        checks.append({
            "property_id": pid,
            "quick_cmd": f"./check {pid} --tier quick",
            "thorough_cmd": f"./check {pid} --tier thorough",
            "evidence_file": f"/verif/evidence/{pid}.json",
            "replay_cmd_template": f"./check {pid} --replay {{path}}",
            "engine": "cedar-verif",
            "level_claimed": {"category": "exploration", "text": text, "design_ref": f"DESIGN.md §{ref}"},
            "level_note": note,
            "technique": tech,
        })
m = {
 "version": 1,
 "setup_cmd": "cd /verif/harness && CARGO_NET_OFFLINE=true cargo build --release --offline",
 "hooks": {
   "guard": "cedar_policy_cedar_verif",
   "enable": "no hooks are needed: the harness links /repo's crates through path dependencies and observes public APIs only",
   "baseline_off_cmd": "cd /repo && cargo test --workspace --no-fail-fast --offline",
   "source_commits": [],
   "add_only": True,
 },
 "engines": [{"name": "cedar-verif", "path": "/verif/harness", "serves_properties": sorted(CLAIMED), "kind_free_text": "Rust crate: proptest-driven choice tape, reference models, oracles; libFuzzer targets reuse the same generators"}],
 "checks": checks,
 "not_applicable": [{"property_id": p, "reason": "check not built yet (work in progress; the technique applies, see DESIGN.md)"} for p in ALL if p not in CLAIMED],
 "notes": "All checks rebuild the harness against /repo's working tree (cargo path dependencies). Exit 2 = inconclusive (build failure, watchdog, degenerate generator).",
}
json.dump(m, open("/verif/MANIFEST.json", "w"), indent=1)
